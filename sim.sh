#!/bin/sh
# run the harness binary with the shim loaded
LD_PRELOAD=/verif/simenv/libsimenv.so exec /verif/target/sim/release/hctl-sim "$@"
