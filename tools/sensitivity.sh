#!/bin/sh
# usage: tools/sensitivity.sh <patch.diff> "<props>" [budget_s] [--tests]
# Applies a change to /repo's working tree, runs the named checks, restores the tree straight afterwards.
# Prints for each property whether the check caught the change (exit 1 + VIOLATION) within the budget.
patch=$(readlink -f "$1"); props=$2; budget=${3:-30}
cd /repo || exit 2
if [ -n "$(git status --porcelain --untracked-files=no)" ]; then echo "sensitivity: /repo is not clean"; exit 2; fi
git apply "$patch" || { echo "sensitivity: patch does not apply"; exit 2; }
trap 'cd /repo && git checkout -- . && cd /verif && ./check setup >/dev/null 2>&1' EXIT INT TERM
if [ "$4" = "--tests" ]; then
  t=$(CARGO_NET_OFFLINE=true cargo test --offline 2>&1 | grep -E "^test result: .* [0-9]+ passed" | head -1)
  echo "tests: $t"
fi
cd /verif
for p in $props; do
  out=$(VERIF_BUDGET_S=$budget ./check run $p --tier quick 2>&1); code=$?
  echo "prop=$p exit=$code :: $(echo "$out" | grep -E "^violation:" | head -1 | cut -c1-260)"
  echo "   $(echo "$out" | tail -1)"
done
