#!/bin/sh
# usage: tools/sweep.sh "<seeds>" "<props>" [tier]   - runs the registered checks for several seeds; prints one line per run
cd /verif
for s in $1; do for p in $2; do
  out=$(VERIF_SEED=$s ./check run $p --tier ${3:-quick} 2>&1); code=$?
  echo "seed=$s prop=$p exit=$code :: $(echo "$out" | tail -1)"
  if [ $code -ne 0 ]; then echo "$out" | grep -E "VIOLATION|violation:|HARNESS" | head -5; fi
done; done
