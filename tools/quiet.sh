#!/bin/sh
# usage: tools/quiet.sh <patch.diff> ["<props>"]
# The opposite of sensitivity.sh: applies a behaviour-preserving change to /repo's working tree,
# runs the registered quick checks, restores the tree. Every check must stay quiet (exit 0).
patch=$(readlink -f "$1"); props=${2:-"C04 C10 C12 C16 C17"}
cd /repo || exit 2
if [ -n "$(git status --porcelain --untracked-files=no)" ]; then echo "quiet: /repo is not clean"; exit 2; fi
git apply "$patch" || { echo "quiet: patch does not apply"; exit 2; }
trap 'cd /repo && git checkout -- . && cd /verif && ./check setup >/dev/null 2>&1' EXIT INT TERM
cd /verif
for p in $props; do
  out=$(./check run $p --tier quick 2>&1); code=$?
  echo "prop=$p exit=$code :: $(echo "$out" | grep -E "^violation:|^VIOLATION|harness" | head -2 | cut -c1-300)"
  echo "   $(echo "$out" | tail -1)"
done
