#!/bin/sh
# usage: tools/confirm_mutation.sh <worktree> <i>
# Confirms in the scratch worktree that mutation_i compiles, passes the 55 baseline tests, and that demo_i
# (an integration test demo_i.rs, or a script demo_i.sh) passes without it and fails with it.
wt=$1; i=$2; cd "$wt" || exit 2
export CARGO_NET_OFFLINE=true
rundemo() {
  if [ -f demo_$i.sh ]; then
    if bash demo_$i.sh >/dev/null 2>&1; then echo "script: PASS"; else echo "script: FAIL"; fi
  else
    rm -rf tests; mkdir -p tests; cp demo_$i.rs tests/demo_$i.rs
    cargo test --offline --test demo_$i 2>&1 | grep -E "^test result" | head -1
  fi
}
git checkout -q -- . ; rm -rf tests
base=$(rundemo)
git checkout -q -- . ; rm -rf tests
git apply mutation_$i.diff || { echo "mutation_$i: does not apply"; exit 2; }
mut_demo=$(rundemo)
rm -rf tests
mut_suite=$(cargo test --offline --lib 2>&1 | grep -E "^test result" | head -1)
git checkout -q -- . ; rm -rf tests
echo "$wt mutation_$i :: demo without: [$base] :: demo with: [$mut_demo] :: suite with: [$mut_suite]"
