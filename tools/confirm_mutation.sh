#!/bin/sh
# usage: tools/confirm_mutation.sh <worktree> <i>
# Confirms in the scratch worktree that mutation_i compiles, passes the 55 baseline tests, and that demo_i
# passes without it and fails with it.
wt=$1; i=$2; cd "$wt" || exit 2
export CARGO_NET_OFFLINE=true
git checkout -q -- . ; rm -rf tests; mkdir -p tests
if [ -f demo_$i.rs ]; then cp demo_$i.rs tests/demo_$i.rs; fi
base=$(cargo test --offline --test demo_$i 2>&1 | grep -E "^test result" | head -1)
git apply mutation_$i.diff || { echo "mutation_$i: does not apply"; exit 2; }
mut_demo=$(cargo test --offline --test demo_$i 2>&1 | grep -E "^test result" | head -1)
mut_suite=$(cargo test --offline --lib 2>&1 | grep -E "^test result" | head -1)
git checkout -q -- . ; rm -rf tests
echo "$wt mutation_$i :: demo without: [$base] :: demo with: [$mut_demo] :: suite with: [$mut_suite]"
