#!/bin/sh
# usage: tools/harvest.sh <patch.diff> <prop> <dest-name> [budget]
# Applies a change to /repo, runs one check, copies the first confirmed replay to replays/regress/<prop>-<dest-name>.json, restores.
patch=$(readlink -f "$1"); prop=$2; dest=$3; budget=${4:-30}
cd /repo || exit 2
if [ -n "$(git status --porcelain --untracked-files=no)" ]; then echo "harvest: /repo is not clean"; exit 2; fi
git apply "$patch" || { echo "harvest: patch does not apply"; exit 2; }
trap 'cd /repo && git checkout -- . && cd /verif && ./check setup >/dev/null 2>&1' EXIT INT TERM
cd /verif
out=$(VERIF_BUDGET_S=$budget ./check run $prop --tier quick 2>&1); code=$?
rp=$(echo "$out" | grep -E "^VIOLATION property=$prop replay=" | head -1 | sed 's/.*replay=//')
echo "$dest: exit=$code replay=$rp"
echo "$out" | grep -E "^violation:" | head -1 | cut -c1-300
case "$rp" in
  */replays/regress/*) echo "   (already caught by a regression replay)";;
  "") ;;
  *) cp "$rp" /verif/replays/regress/$prop-$dest.json;;
esac
