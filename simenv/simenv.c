/*
 * libsimenv.so - the simulated OS boundary for the hctl-sim harness (LD_PRELOAD).
 *
 * Interposes only libc entry points; the code under test is byte-for-byte what ships.
 *
 *   getrandom        -> bytes of a splitmix64 stream (controls std::collections::hash_map::RandomState)
 *   clock_gettime    -> CLOCK_REALTIME follows a script: n-th reading = base + sum(delta_0..n)
 *   open/openat/creat/read/write/lseek/close/fsync
 *                    -> on descriptors whose path lies under a sandbox prefix, follow a fault plan
 *
 * Configuration is either by environment (for child processes: the real CLI binary)
 *   VERIF_RAND=<u64>  VERIF_CLOCK=<base_ms>:<d0>,<d1>,...   VERIF_IO_PREFIX=<dir>  VERIF_IO_PLAN=<plan>
 *   VERIF_IO_LOG=<file>   (trace of intercepted calls + counters, written with raw syscalls)
 * or in-process through the exported simenv_* functions (looked up with dlsym by the harness).
 *
 * Plan grammar (comma separated, all counters 1-based, all limits in bytes):
 *   shortw=N shortr=N      every tracked write/read transfers at most N bytes      (legal, must be tolerated)
 *   eintr=K                every (K+1)-th tracked read/write call fails with EINTR (never twice in a row: a retry
 *                          always makes progress, as on a real system)
 *   eio_w=J eio_r=J eio_seek=J eio_close=J eio_fsync=J   the J-th tracked call of that kind fails with EIO
 *   open_err=J:E           the J-th tracked open fails with errno E (number)
 *   enospc=N  efbig=N      after N bytes written in total: short write up to the limit, then ENOSPC / EFBIG
 *   kill_w=J:F             the J-th tracked write lets F bytes through (clamped) and then the process _exit(137)s
 *
 * Everything not matched falls through to the real libc function.
 *
 * Caller threads (simenv_sched_*): threads of the harness that have joined the scheduler run one at a
 * time; at every intercepted file call of such a thread a seeded PRNG decides which of them proceeds.
 * The threads are real, the choice of who runs is not: one seed = one interleaving of their file calls.
 */
#define _GNU_SOURCE
#include <dlfcn.h>
#include <errno.h>
#include <fcntl.h>
#include <limits.h>
#include <pthread.h>
#include <stdarg.h>
#include <stdint.h>
#include <stdio.h>
#include <stdlib.h>
#include <string.h>
#include <sys/stat.h>
#include <sys/syscall.h>
#include <sys/types.h>
#include <time.h>
#include <unistd.h>

#define MAXFD 4096
#define MAXDELTAS 4096

static pthread_mutex_t g_mu = PTHREAD_MUTEX_INITIALIZER;

/* ---------- real functions ---------- */
static int (*real_open)(const char *, int, ...);
static int (*real_open64)(const char *, int, ...);
static int (*real_openat)(int, const char *, int, ...);
static int (*real_openat64)(int, const char *, int, ...);
static ssize_t (*real_read)(int, void *, size_t);
static ssize_t (*real_write)(int, const void *, size_t);
static off_t (*real_lseek)(int, off_t, int);
static off64_t (*real_lseek64)(int, off64_t, int);
static int (*real_close)(int);
static int (*real_fsync)(int);
static int (*real_clock_gettime)(clockid_t, struct timespec *);
static ssize_t (*real_getrandom)(void *, size_t, unsigned int);

static void resolve(void) {
    if (real_write) return;
    real_open = dlsym(RTLD_NEXT, "open");
    real_open64 = dlsym(RTLD_NEXT, "open64");
    real_openat = dlsym(RTLD_NEXT, "openat");
    real_openat64 = dlsym(RTLD_NEXT, "openat64");
    real_read = dlsym(RTLD_NEXT, "read");
    real_lseek = dlsym(RTLD_NEXT, "lseek");
    real_lseek64 = dlsym(RTLD_NEXT, "lseek64");
    real_close = dlsym(RTLD_NEXT, "close");
    real_fsync = dlsym(RTLD_NEXT, "fsync");
    real_clock_gettime = dlsym(RTLD_NEXT, "clock_gettime");
    real_getrandom = dlsym(RTLD_NEXT, "getrandom");
    real_write = dlsym(RTLD_NEXT, "write");
}

/* ---------- state ---------- */
enum {
    C_GETRANDOM, C_CLOCK, C_OPEN, C_READ, C_WRITE, C_SEEK, C_CLOSE, C_FSYNC,
    C_BYTES_W, C_BYTES_R,
    F_SHORTW, F_SHORTR, F_EINTR, F_EIO_W, F_EIO_R, F_EIO_SEEK, F_EIO_CLOSE, F_EIO_FSYNC,
    F_OPEN_ERR, F_ENOSPC, F_EFBIG, F_KILL, F_CLOCK_BACK,
    N_COUNTERS
};
static uint64_t g_cnt[N_COUNTERS];

static int g_rand_on;
static uint64_t g_rand_state;

static int g_clock_on;
static int64_t g_clock_now_ms;
static int64_t g_clock_deltas[MAXDELTAS];
static int g_clock_n, g_clock_i;

static char g_prefix[PATH_MAX];
static size_t g_prefix_len;
static unsigned char g_tracked[MAXFD];

struct plan {
    long shortw, shortr, eintr, eio_w, eio_r, eio_seek, eio_close, eio_fsync;
    long open_err_j, open_err_e, enospc, efbig, kill_w, kill_f;
    int on;
};
static struct plan g_plan;
static uint64_t g_rw_calls; /* for eintr */
/* operation-relative call counters: reset whenever a plan is installed, so that 'the j-th write'
 * means the j-th write of the operation the plan was installed for */
static uint64_t p_open, p_read, p_write, p_seek, p_close, p_fsync, p_bytes_w;

static int g_log_fd = -1;
static char *g_log_buf;
static size_t g_log_cap, g_log_len;

static void log_line(const char *op, long a, long b) {
    char line[96];
    int n = snprintf(line, sizeof line, "%s %ld %ld\n", op, a, b);
    if (n <= 0) return;
    if (g_log_fd >= 0) {
        syscall(SYS_write, g_log_fd, line, (size_t)n);
    }
    if (g_log_buf && g_log_len + (size_t)n < g_log_cap) {
        memcpy(g_log_buf + g_log_len, line, (size_t)n);
        g_log_len += (size_t)n;
        g_log_buf[g_log_len] = 0;
    }
}

static long plan_get(const char *s, const char *key, long dflt) {
    size_t kl = strlen(key);
    const char *p = s;
    while (p && *p) {
        if (strncmp(p, key, kl) == 0 && p[kl] == '=') return atol(p + kl + 1);
        p = strchr(p, ',');
        if (p) p++;
    }
    return dflt;
}
static long plan_get2(const char *s, const char *key, long dflt) {
    size_t kl = strlen(key);
    const char *p = s;
    while (p && *p) {
        if (strncmp(p, key, kl) == 0 && p[kl] == '=') {
            const char *c = strchr(p, ':');
            const char *e = strchr(p, ',');
            if (c && (!e || c < e)) return atol(c + 1);
            return dflt;
        }
        p = strchr(p, ',');
        if (p) p++;
    }
    return dflt;
}

static void parse_plan(const char *s) {
    memset(&g_plan, 0, sizeof g_plan);
    g_rw_calls = 0;
    p_open = p_read = p_write = p_seek = p_close = p_fsync = p_bytes_w = 0;
    if (!s || !*s) return;
    g_plan.on = 1;
    g_plan.shortw = plan_get(s, "shortw", 0);
    g_plan.shortr = plan_get(s, "shortr", 0);
    g_plan.eintr = plan_get(s, "eintr", 0);
    g_plan.eio_w = plan_get(s, "eio_w", 0);
    g_plan.eio_r = plan_get(s, "eio_r", 0);
    g_plan.eio_seek = plan_get(s, "eio_seek", 0);
    g_plan.eio_close = plan_get(s, "eio_close", 0);
    g_plan.eio_fsync = plan_get(s, "eio_fsync", 0);
    g_plan.open_err_j = plan_get(s, "open_err", 0);
    g_plan.open_err_e = plan_get2(s, "open_err", EIO);
    g_plan.enospc = plan_get(s, "enospc", -1);
    g_plan.efbig = plan_get(s, "efbig", -1);
    g_plan.kill_w = plan_get(s, "kill_w", 0);
    g_plan.kill_f = plan_get2(s, "kill_w", 0);
}

static void parse_clock(const char *s) {
    g_clock_on = 0;
    g_clock_n = 0;
    g_clock_i = 0;
    if (!s || !*s) return;
    g_clock_now_ms = atoll(s);
    const char *p = strchr(s, ':');
    while (p && *(p + 1) && g_clock_n < MAXDELTAS) {
        p++;
        g_clock_deltas[g_clock_n++] = atoll(p);
        p = strchr(p, ',');
    }
    g_clock_on = 1;
}

static void set_prefix(const char *p) {
    g_prefix[0] = 0;
    g_prefix_len = 0;
    if (!p || !*p) return;
    strncpy(g_prefix, p, sizeof g_prefix - 1);
    g_prefix_len = strlen(g_prefix);
    while (g_prefix_len > 1 && g_prefix[g_prefix_len - 1] == '/') g_prefix[--g_prefix_len] = 0;
}

__attribute__((constructor)) static void simenv_init(void) {
    resolve();
    const char *e;
    if ((e = getenv("VERIF_RAND")) && *e) {
        g_rand_on = 1;
        g_rand_state = strtoull(e, NULL, 10);
    }
    parse_clock(getenv("VERIF_CLOCK"));
    set_prefix(getenv("VERIF_IO_PREFIX"));
    parse_plan(getenv("VERIF_IO_PLAN"));
    if ((e = getenv("VERIF_IO_LOG")) && *e) {
        g_log_fd = (int)syscall(SYS_openat, AT_FDCWD, e, O_WRONLY | O_CREAT | O_APPEND | O_CLOEXEC, 0644);
    }
}

static void dump_counters(void) {
    if (g_log_fd < 0) return;
    char line[64];
    for (int i = 0; i < N_COUNTERS; i++) {
        int n = snprintf(line, sizeof line, "counter %d %llu\n", i, (unsigned long long)g_cnt[i]);
        syscall(SYS_write, g_log_fd, line, (size_t)n);
    }
}
__attribute__((destructor)) static void simenv_fini(void) { dump_counters(); }

/* ---------- exported control API (in-process harness) ---------- */
int simenv_active(void) { return 1; }
void simenv_reseed(uint64_t seed) {
    pthread_mutex_lock(&g_mu);
    g_rand_on = 1;
    g_rand_state = seed;
    pthread_mutex_unlock(&g_mu);
}
void simenv_rand_off(void) { g_rand_on = 0; }
void simenv_clock(const char *script) {
    pthread_mutex_lock(&g_mu);
    parse_clock(script);
    pthread_mutex_unlock(&g_mu);
}
void simenv_io(const char *prefix, const char *plan) {
    pthread_mutex_lock(&g_mu);
    set_prefix(prefix);
    parse_plan(plan);
    pthread_mutex_unlock(&g_mu);
}
void simenv_io_plan(const char *plan) {
    pthread_mutex_lock(&g_mu);
    parse_plan(plan);
    pthread_mutex_unlock(&g_mu);
}
void simenv_counters(uint64_t *out, int n) {
    pthread_mutex_lock(&g_mu);
    for (int i = 0; i < n && i < N_COUNTERS; i++) out[i] = g_cnt[i];
    pthread_mutex_unlock(&g_mu);
}
void simenv_counters_reset(void) {
    pthread_mutex_lock(&g_mu);
    memset(g_cnt, 0, sizeof g_cnt);
    pthread_mutex_unlock(&g_mu);
}
int simenv_num_counters(void) { return N_COUNTERS; }
/* in-memory trace: the harness hands in a buffer; it is filled with "op a b\n" lines */
void simenv_trace(char *buf, size_t cap) {
    pthread_mutex_lock(&g_mu);
    g_log_buf = buf;
    g_log_cap = cap;
    g_log_len = 0;
    if (buf && cap) buf[0] = 0;
    pthread_mutex_unlock(&g_mu);
}

/* ---------- cooperative scheduler for caller threads ---------- */
#define SCHED_MAX 8
static pthread_mutex_t s_mu = PTHREAD_MUTEX_INITIALIZER;
static pthread_cond_t s_cv = PTHREAD_COND_INITIALIZER;
static volatile int s_on;
static int s_n, s_joined, s_turn = -1;
static int s_state[SCHED_MAX]; /* 0 not joined, 1 runnable, 2 left */
static uint64_t s_rng, s_switches, s_points;
static __thread int s_me = -1;

static int sched_pick(void) {
    int ids[SCHED_MAX], k = 0;
    for (int i = 0; i < s_n; i++)
        if (s_state[i] == 1) ids[k++] = i;
    if (!k) return -1;
    uint64_t z = (s_rng += 0x9E3779B97F4A7C15ULL);
    z = (z ^ (z >> 30)) * 0xBF58476D1CE4E5B9ULL;
    z = (z ^ (z >> 27)) * 0x94D049BB133111EBULL;
    z ^= z >> 31;
    return ids[z % (uint64_t)k];
}
void simenv_sched_begin(int n, uint64_t seed) {
    pthread_mutex_lock(&s_mu);
    s_n = n > SCHED_MAX ? SCHED_MAX : n;
    s_joined = 0;
    s_turn = -1;
    s_rng = seed;
    s_switches = s_points = 0;
    memset(s_state, 0, sizeof s_state);
    s_on = 1;
    pthread_mutex_unlock(&s_mu);
}
/* blocks until every thread has joined and the scheduler has given this one the turn */
void simenv_sched_join(int id) {
    pthread_mutex_lock(&s_mu);
    s_me = id;
    s_state[id] = 1;
    if (++s_joined == s_n) {
        s_turn = sched_pick();
        pthread_cond_broadcast(&s_cv);
    }
    while (s_turn != id) pthread_cond_wait(&s_cv, &s_mu);
    pthread_mutex_unlock(&s_mu);
}
static void sched_point(int fd) {
    if (!s_on || s_me < 0 || (fd >= 0 && fd <= 2)) return;
    pthread_mutex_lock(&s_mu);
    s_points++;
    int nxt = sched_pick();
    if (nxt >= 0 && nxt != s_me) {
        s_switches++;
        s_turn = nxt;
        pthread_cond_broadcast(&s_cv);
        while (s_turn != s_me) pthread_cond_wait(&s_cv, &s_mu);
    }
    pthread_mutex_unlock(&s_mu);
}
void simenv_sched_leave(void) {
    pthread_mutex_lock(&s_mu);
    if (s_me >= 0) {
        s_state[s_me] = 2;
        s_me = -1;
        s_turn = sched_pick();
        pthread_cond_broadcast(&s_cv);
    }
    pthread_mutex_unlock(&s_mu);
}
/* returns the number of context switches; out2 (if not NULL) receives the number of scheduling points */
uint64_t simenv_sched_end(uint64_t *out2) {
    pthread_mutex_lock(&s_mu);
    s_on = 0;
    uint64_t r = s_switches;
    if (out2) *out2 = s_points;
    pthread_mutex_unlock(&s_mu);
    return r;
}

/* ---------- getrandom ---------- */
static uint64_t splitmix(void) {
    uint64_t z = (g_rand_state += 0x9E3779B97F4A7C15ULL);
    z = (z ^ (z >> 30)) * 0xBF58476D1CE4E5B9ULL;
    z = (z ^ (z >> 27)) * 0x94D049BB133111EBULL;
    return z ^ (z >> 31);
}
ssize_t getrandom(void *buf, size_t len, unsigned int flags) {
    resolve();
    if (!g_rand_on) {
        if (real_getrandom) return real_getrandom(buf, len, flags);
        return syscall(SYS_getrandom, buf, len, flags);
    }
    pthread_mutex_lock(&g_mu);
    g_cnt[C_GETRANDOM]++;
    unsigned char *p = buf;
    size_t i = 0;
    while (i < len) {
        uint64_t v = splitmix();
        for (int k = 0; k < 8 && i < len; k++, i++) p[i] = (unsigned char)(v >> (8 * k));
    }
    pthread_mutex_unlock(&g_mu);
    return (ssize_t)len;
}

/* ---------- clock ---------- */
int clock_gettime(clockid_t clk, struct timespec *ts) {
    resolve();
    if (!g_clock_on || clk != CLOCK_REALTIME) return real_clock_gettime(clk, ts);
    pthread_mutex_lock(&g_mu);
    g_cnt[C_CLOCK]++;
    int64_t d = 1;
    if (g_clock_n > 0) {
        d = g_clock_deltas[g_clock_i < g_clock_n ? g_clock_i : g_clock_n - 1];
        if (g_clock_i < g_clock_n) g_clock_i++;
    }
    if (d < 0) g_cnt[F_CLOCK_BACK]++;
    g_clock_now_ms += d;
    int64_t now = g_clock_now_ms;
    pthread_mutex_unlock(&g_mu);
    int64_t s = now / 1000, ms = now % 1000;
    if (ms < 0) { ms += 1000; s -= 1; }
    ts->tv_sec = (time_t)s;
    ts->tv_nsec = (long)(ms * 1000000L);
    return 0;
}

/* ---------- file I/O ---------- */
static int path_tracked(int dirfd, const char *path) {
    if (!g_prefix_len || !path) return 0;
    char abs[PATH_MAX];
    if (path[0] != '/') {
        if (dirfd != AT_FDCWD) return 0;
        char cwd[PATH_MAX];
        if (syscall(SYS_getcwd, cwd, sizeof cwd) < 0) return 0;
        if (snprintf(abs, sizeof abs, "%s/%s", cwd, path) >= (int)sizeof abs) return 0;
        path = abs;
    }
    if (strncmp(path, g_prefix, g_prefix_len) != 0) return 0;
    return path[g_prefix_len] == '/' || path[g_prefix_len] == 0;
}

static int do_open(int dirfd, const char *path, int flags, mode_t mode) {
    sched_point(-1);
    int tracked = path_tracked(dirfd, path);
    if (tracked) {
        pthread_mutex_lock(&g_mu);
        ++g_cnt[C_OPEN];
        uint64_t j = ++p_open;
        int fail = g_plan.on && g_plan.open_err_j && (long)j == g_plan.open_err_j;
        long e = g_plan.open_err_e;
        if (fail) g_cnt[F_OPEN_ERR]++;
        pthread_mutex_unlock(&g_mu);
        if (fail) {
            log_line("open_err", (long)j, e);
            errno = (int)e;
            return -1;
        }
    }
    int fd = (int)syscall(SYS_openat, dirfd, path, flags, mode);
    if (fd >= 0 && fd < MAXFD) g_tracked[fd] = (unsigned char)tracked;
    if (tracked) log_line("open", fd >= 0 ? 0 : -1, flags); /* no fd numbers: they differ between processes */
    return fd;
}

#define GET_MODE                                   \
    mode_t mode = 0;                               \
    if (flags & (O_CREAT | O_TMPFILE)) {           \
        va_list ap;                                \
        va_start(ap, flags);                       \
        mode = (mode_t)va_arg(ap, int);            \
        va_end(ap);                                \
    }

int open(const char *path, int flags, ...) { GET_MODE; return do_open(AT_FDCWD, path, flags, mode); }
int open64(const char *path, int flags, ...) { GET_MODE; return do_open(AT_FDCWD, path, flags | O_LARGEFILE, mode); }
int openat(int dirfd, const char *path, int flags, ...) { GET_MODE; return do_open(dirfd, path, flags, mode); }
int openat64(int dirfd, const char *path, int flags, ...) { GET_MODE; return do_open(dirfd, path, flags | O_LARGEFILE, mode); }
int creat(const char *path, mode_t mode) { return do_open(AT_FDCWD, path, O_CREAT | O_WRONLY | O_TRUNC, mode); }

static int is_tracked(int fd) { return fd >= 0 && fd < MAXFD && g_tracked[fd]; }

ssize_t write(int fd, const void *buf, size_t len) {
    resolve();
    sched_point(fd);
    if (!is_tracked(fd)) return real_write(fd, buf, len);
    pthread_mutex_lock(&g_mu);
    ++g_cnt[C_WRITE];
    uint64_t j = ++p_write;
    uint64_t rw = ++g_rw_calls;
    size_t n = len;
    int err = 0, kill = 0;
    if (g_plan.on) {
        if (g_plan.kill_w && (long)j == g_plan.kill_w) {
            kill = 1;
            n = (size_t)g_plan.kill_f < len ? (size_t)g_plan.kill_f : len;
            g_cnt[F_KILL]++;
        } else if (g_plan.eintr && rw % ((uint64_t)g_plan.eintr + 1) == 0) {
            err = EINTR;
            g_cnt[F_EINTR]++;
        } else if (g_plan.eio_w && (long)j == g_plan.eio_w) {
            err = EIO;
            g_cnt[F_EIO_W]++;
        } else {
            if (g_plan.shortw > 0 && n > (size_t)g_plan.shortw) {
                n = (size_t)g_plan.shortw;
                g_cnt[F_SHORTW]++;
            }
            long lim = -1;
            int lim_err = 0, lim_cnt = 0;
            if (g_plan.enospc >= 0) { lim = g_plan.enospc; lim_err = ENOSPC; lim_cnt = F_ENOSPC; }
            if (g_plan.efbig >= 0 && (lim < 0 || g_plan.efbig < lim)) { lim = g_plan.efbig; lim_err = EFBIG; lim_cnt = F_EFBIG; }
            if (lim >= 0 && len > 0) {
                uint64_t done = p_bytes_w;
                if (done >= (uint64_t)lim) {
                    err = lim_err;
                    g_cnt[lim_cnt]++;
                } else if (done + n > (uint64_t)lim) {
                    n = (size_t)((uint64_t)lim - done);
                    g_cnt[lim_cnt]++;
                }
            }
        }
    }
    pthread_mutex_unlock(&g_mu);
    if (err) {
        log_line("write_err", (long)len, err);
        errno = err;
        return -1;
    }
    ssize_t r = n ? real_write(fd, buf, n) : 0;
    if (r > 0) {
        pthread_mutex_lock(&g_mu);
        g_cnt[C_BYTES_W] += (uint64_t)r;
        p_bytes_w += (uint64_t)r;
        pthread_mutex_unlock(&g_mu);
    }
    log_line(kill ? "write_kill" : "write", (long)len, (long)r);
    if (kill) {
        dump_counters();
        _exit(137);
    }
    return r;
}

ssize_t read(int fd, void *buf, size_t len) {
    resolve();
    sched_point(fd);
    if (!is_tracked(fd)) return real_read(fd, buf, len);
    pthread_mutex_lock(&g_mu);
    ++g_cnt[C_READ];
    uint64_t j = ++p_read;
    uint64_t rw = ++g_rw_calls;
    size_t n = len;
    int err = 0;
    if (g_plan.on) {
        if (g_plan.eintr && rw % ((uint64_t)g_plan.eintr + 1) == 0) {
            err = EINTR;
            g_cnt[F_EINTR]++;
        } else if (g_plan.eio_r && (long)j == g_plan.eio_r) {
            err = EIO;
            g_cnt[F_EIO_R]++;
        } else if (g_plan.shortr > 0 && n > (size_t)g_plan.shortr) {
            n = (size_t)g_plan.shortr;
            g_cnt[F_SHORTR]++;
        }
    }
    pthread_mutex_unlock(&g_mu);
    if (err) {
        log_line("read_err", (long)len, err);
        errno = err;
        return -1;
    }
    ssize_t r = real_read(fd, buf, n);
    if (r > 0) {
        pthread_mutex_lock(&g_mu);
        g_cnt[C_BYTES_R] += (uint64_t)r;
        pthread_mutex_unlock(&g_mu);
    }
    log_line("read", (long)len, (long)r);
    return r;
}

static int seek_fault(void) {
    pthread_mutex_lock(&g_mu);
    ++g_cnt[C_SEEK];
    uint64_t j = ++p_seek;
    int fail = g_plan.on && g_plan.eio_seek && (long)j == g_plan.eio_seek;
    if (fail) g_cnt[F_EIO_SEEK]++;
    pthread_mutex_unlock(&g_mu);
    return fail;
}
off_t lseek(int fd, off_t off, int whence) {
    resolve();
    if (is_tracked(fd)) {
        if (seek_fault()) {
            log_line("seek_err", (long)off, whence);
            errno = EIO;
            return (off_t)-1;
        }
        off_t r = real_lseek(fd, off, whence);
        log_line("seek", (long)off, (long)r);
        return r;
    }
    return real_lseek(fd, off, whence);
}
off64_t lseek64(int fd, off64_t off, int whence) {
    resolve();
    if (is_tracked(fd)) {
        if (seek_fault()) {
            log_line("seek_err", (long)off, whence);
            errno = EIO;
            return (off64_t)-1;
        }
        off64_t r = real_lseek64(fd, off, whence);
        log_line("seek", (long)off, (long)r);
        return r;
    }
    return real_lseek64(fd, off, whence);
}

int close(int fd) {
    resolve();
    sched_point(fd);
    if (is_tracked(fd)) {
        g_tracked[fd] = 0;
        pthread_mutex_lock(&g_mu);
        ++g_cnt[C_CLOSE];
        uint64_t j = ++p_close;
        int fail = g_plan.on && g_plan.eio_close && (long)j == g_plan.eio_close;
        if (fail) g_cnt[F_EIO_CLOSE]++;
        pthread_mutex_unlock(&g_mu);
        int r = real_close(fd);
        log_line(fail ? "close_err" : "close", 0, r);
        if (fail) {
            errno = EIO;
            return -1;
        }
        return r;
    }
    return real_close(fd);
}

int fsync(int fd) {
    resolve();
    if (is_tracked(fd)) {
        pthread_mutex_lock(&g_mu);
        ++g_cnt[C_FSYNC];
        uint64_t j = ++p_fsync;
        int fail = g_plan.on && g_plan.eio_fsync && (long)j == g_plan.eio_fsync;
        if (fail) g_cnt[F_EIO_FSYNC]++;
        pthread_mutex_unlock(&g_mu);
        log_line(fail ? "fsync_err" : "fsync", 0, 0);
        if (fail) {
            errno = EIO;
            return -1;
        }
    }
    return real_fsync(fd);
}
