//! C12 - attractor and steady-state shortcuts agree with generic evaluation everywhere.
//!
//! History explored: formulae containing the two patterns (and near-misses of them) in generated
//! contexts - under operators, jumps, plain and restricted quantifiers, with arbitrary variable
//! names - evaluated alone and in batches (orders, entry points, observers, hash seeds).
//! Oracle: each result equals the *twin* of the formula evaluated with sharing disabled, where the
//! twin is a logically identical formula no recogniser can match (every quantifier body becomes
//! `(body | false)`, every variable leaf `({v} & {v})`; neither rewrite changes the raw set of any
//! sub-formula, in particular neither adds an intersection with the unit set).

use crate::ast::F;
use crate::c04::{Variant, random_mode, random_obs, run_variants};
use crate::evalx::{self, Gcv, Mode, ObsKind};
use crate::exec::{Outcome, isolated};
use crate::fgen::{self, Gen, GenCfg, Pool, attractor, steady};
use crate::prng::{Rng, fnv1a};
use crate::scen::Report;
use crate::world::World;
use serde_json::{Value, json};

#[derive(Clone, Debug, PartialEq)]
pub struct C12 {
    pub batch: Vec<F>,
    pub ref_hash_seed: u64,
    pub alone_hash_seed: u64,
    pub variants: Vec<Variant>,
    /// what the evaluating thread did before (on another network); not applied to the twin reference
    pub prelude: Option<evalx::Prelude>,
}

impl C12 {
    pub fn to_json(&self) -> Value {
        json!({
            "batch": self.batch.iter().map(|f| f.to_json()).collect::<Vec<_>>(),
            "batch_text": self.batch.iter().map(|f| f.render()).collect::<Vec<_>>(),
            "twin_text": self.batch.iter().map(|f| twin(f).render()).collect::<Vec<_>>(),
            "ref_hash_seed": self.ref_hash_seed,
            "alone_hash_seed": self.alone_hash_seed,
            "prelude": crate::c04::prelude_to_json(&self.prelude),
            "variants": self.variants.iter().map(|v| json!({
                "order": v.order, "mode": v.mode.name(), "observer": v.obs.to_json(), "hash_seed": v.hash_seed
            })).collect::<Vec<_>>(),
        })
    }
    pub fn from_json(v: &Value) -> Result<C12, String> {
        let c = crate::c04::C04::from_json(&json!({
            "batch": v["batch"], "variants": v["variants"],
            "ref_hash_seed": v["ref_hash_seed"], "nocache_hash_seed": v["alone_hash_seed"],
        }))?;
        let prelude = crate::c04::prelude_from_json(&v["prelude"]);
        Ok(C12 { batch: c.batch, ref_hash_seed: c.ref_hash_seed, alone_hash_seed: c.nocache_hash_seed, variants: c.variants, prelude })
    }
}

/// Logically identical formula that no structural recogniser anchored at a binder or at a
/// variable leaf can match.
pub fn twin(f: &F) -> F {
    match f {
        F::Var(v) => F::bin("&", F::var(v), F::var(v)),
        // the universal operators are spelled through their duals - exactly how the evaluator
        // defines them (AX = ~EX~, AG = ~EF~, AF = ~EG~), so the raw set is the same, but no
        // rewriting of operator chains (e.g. a collapse of `AX AX`) can touch the twin
        F::Un("AX", a) => F::un("~", F::un("EX", F::un("~", twin(a)))),
        F::Un("AG", a) => F::un("~", F::un("EF", F::un("~", twin(a)))),
        F::Un("AF", a) => F::un("~", F::un("EG", F::un("~", twin(a)))),
        F::Un(op, a) => F::Un(op, Box::new(twin(a))),
        F::Bin(op, a, b) => F::Bin(op, Box::new(twin(a)), Box::new(twin(b))),
        F::Hyb(op, v, d, a) => {
            if *op == "@" {
                F::Hyb(op, v.clone(), d.clone(), Box::new(twin(a)))
            } else {
                F::Hyb(op, v.clone(), d.clone(), Box::new(F::bin("|", twin(a), F::Const(false))))
            }
        }
        other => other.clone(),
    }
}

/// The formula with every operator whose meaning depends on self-loops replaced by one that does
/// not (EX->EF, AX->AG, AF->EF, EG->AG, AU->EU, EW->AW): another formula, in which the attractor
/// pattern and its contexts survive unchanged, and on which the self-loop-free evaluation variant
/// must agree with ordinary evaluation.
pub fn self_loop_free(f: &F) -> F {
    match f {
        F::Un(op, a) => {
            let op2 = match *op {
                "EX" | "AF" => "EF",
                "AX" | "EG" => "AG",
                o => o,
            };
            F::un(op2, self_loop_free(a))
        }
        F::Bin(op, a, b) => {
            let op2 = match *op {
                "AU" => "EU",
                "EW" => "AW",
                o => o,
            };
            F::bin(op2, self_loop_free(a), self_loop_free(b))
        }
        F::Hyb(op, v, d, a) => F::Hyb(op, v.clone(), d.clone(), Box::new(self_loop_free(a))),
        other => other.clone(),
    }
}

/// Does the formula contain one of the two patterns exactly (as the recognisers define them)?
pub fn count_patterns(f: &F) -> (usize, usize) {
    let mut a = 0;
    let mut s = 0;
    for p in f.paths() {
        if let F::Hyb("!", v, None, body) = f.at(&p) {
            match &**body {
                F::Un("AG", x) => {
                    if let F::Un("EF", y) = &**x {
                        if **y == F::Var(v.clone()) {
                            a += 1;
                        }
                    }
                }
                F::Un("AX", y) => {
                    if **y == F::Var(v.clone()) {
                        s += 1;
                    }
                }
                _ => {}
            }
        }
    }
    (a, s)
}

/// Near-misses: formulae that merely resemble the patterns. `outer` is a variable bound outside
/// (if any), `dom` a domain label (if any).
fn near_miss(rng: &mut Rng, v: &str, outer: Option<&str>, dom: Option<&str>) -> F {
    let x = || F::var(v);
    let mut opts: Vec<F> = vec![
        F::hyb("3", v, None, F::un("AG", F::un("EF", x()))),
        F::hyb("V", v, None, F::un("AX", x())),
        F::hyb("3", v, None, F::un("AX", x())),
        F::hyb("!", v, None, F::un("AG", F::un("EF", F::un("AX", x())))),
        F::hyb("!", v, None, F::un("AG", F::un("EF", F::un("~", x())))),
        F::hyb("!", v, None, F::un("AX", F::un("~", x()))),
        F::hyb("!", v, None, F::un("EX", x())),
        F::hyb("!", v, None, F::un("EF", F::un("AG", x()))),
        F::hyb("!", v, None, F::un("AG", F::un("AF", x()))),
        F::hyb("!", v, None, F::un("AX", F::un("AX", x()))),
        F::hyb("!", v, None, F::un("AG", x())),
        F::hyb("!", v, None, F::un("EF", x())),
        F::hyb("!", v, None, F::un("EG", F::un("EF", x()))),
        F::hyb("!", v, None, F::un("AG", F::un("EX", x()))),
        F::hyb("!", v, None, F::un("~", F::un("AX", x()))),
        F::hyb("!", v, None, F::bin("&", F::un("AX", x()), F::Const(true))),
        // proper prefixes of the patterns' operator chains
        F::hyb("!", v, None, x()),
        F::hyb("!", v, None, F::un("EF", F::un("EF", x()))),
        F::hyb("!", v, None, F::un("AG", F::un("AG", F::un("EF", x())))),
        F::hyb("!", v, None, F::un("AX", F::un("AX", F::un("AX", x())))),
    ];
    if let Some(o) = outer {
        opts.push(F::hyb("!", v, None, F::un("AG", F::un("EF", F::var(o)))));
        opts.push(F::hyb("!", v, None, F::un("AX", F::var(o))));
        opts.push(F::hyb("!", v, None, F::un("AG", F::un("EF", F::bin("&", x(), F::var(o))))));
    }
    if let Some(d) = dom {
        opts.push(F::hyb("!", v, Some(d), F::un("AG", F::un("EF", x()))));
        opts.push(F::hyb("!", v, Some(d), F::un("AX", x())));
    }
    rng.pick(&opts).clone()
}

fn fresh(rng: &mut Rng, used: &[String]) -> String {
    loop {
        let n = *rng.pick(&fgen::NAME_POOL);
        if !used.iter().any(|u| u == n) {
            return n.to_string();
        }
    }
}

/// A pattern (or near-miss) placed in a generated context.
fn placed(rng: &mut Rng, world: &World, cfg: &GenCfg, g: &Gen, depth_left: usize, scope: &mut Vec<String>) -> F {
    let labels: Vec<String> = world.context.keys().cloned().collect();
    let dom = if labels.is_empty() { None } else { Some(rng.pick(&labels).clone()) };
    if depth_left == 0 || (scope.len() + 1 >= cfg.max_depth.max(1)) || rng.chance(1, 4) {
        // the core
        let v = fresh(rng, scope);
        let outer = if scope.is_empty() { None } else { Some(rng.pick(scope).clone()) };
        return match rng.weighted(&[4, 4, 4]) {
            0 => attractor(&v),
            1 => steady(&v),
            _ => near_miss(rng, &v, outer.as_deref(), dom.as_deref()),
        };
    }
    let props = &cfg.props;
    let c = rng.weighted(&[3, 4, 5, 2]);
    match c {
        0 => {
            let op = if cfg.heavy_ops { *rng.pick(&["~", "EX", "AX", "EF", "AG", "AF", "EG"]) } else { *rng.pick(&["~", "EX", "AX", "EF", "AG"]) };
            F::un(op, placed(rng, world, cfg, g, depth_left - 1, scope))
        }
        1 => {
            let op = *rng.pick(&["&", "|", "^", "=>", "<=>", "EU", "AW"]);
            let inner = placed(rng, world, cfg, g, depth_left - 1, scope);
            // the sibling shares the pattern's sub-formulae so that the cache is involved
            let sib = if scope.is_empty() || rng.chance(1, 2) {
                match rng.below(4) {
                    0 => F::prop(rng.pick(props)),
                    1 => F::un("AX", F::prop(rng.pick(props))),
                    2 => {
                        let v = fresh(rng, scope);
                        if rng.chance(1, 2) { attractor(&v) } else { steady(&v) }
                    }
                    _ => {
                        let mut sc2 = scope.clone();
                        let mut r2 = rng.fork("sib");
                        let f = g.formula(&mut r2);
                        // g.formula is closed; rename clashes away
                        let mut names = std::collections::BTreeSet::new();
                        f.all_var_names(&mut names);
                        let mut f2 = f;
                        for nm in names {
                            if sc2.contains(&nm) {
                                let fr = fresh(rng, &sc2);
                                sc2.push(fr.clone());
                                f2 = f2.rename_var(&nm, &fr);
                            }
                        }
                        if f2.well_scoped() { f2 } else { F::Const(true) }
                    }
                }
            } else {
                let y = rng.pick(scope).clone();
                match rng.below(4) {
                    0 => F::un("AG", F::un("EF", F::var(&y))),
                    1 => F::un("EF", F::var(&y)),
                    2 => F::un("AX", F::var(&y)),
                    _ => F::var(&y),
                }
            };
            if rng.chance(1, 2) { F::bin(op, inner, sib) } else { F::bin(op, sib, inner) }
        }
        2 => {
            let y = fresh(rng, scope);
            let op = *rng.pick(&["!", "3", "3", "V"]);
            let d = if rng.chance(1, 2) { dom.clone() } else { None };
            scope.push(y.clone());
            let inner = placed(rng, world, cfg, g, depth_left - 1, scope);
            scope.pop();
            let body = match rng.below(5) {
                0 => inner,
                1 => F::hyb("@", &y, None, inner),
                2 => F::hyb("@", &y, None, F::bin("&", inner, F::un(*rng.pick(&["AX", "EF", "EX"]), F::var(&y)))),
                // the jump as a *sibling* of the (closed) pattern: `Q{y}: ((@{y}: ...) op pattern)`
                3 => F::bin(*rng.pick(&["&", "|", "=>"]), F::hyb("@", &y, None, F::un(*rng.pick(&["AX", "EF", "EX"]), F::var(&y))), inner),
                _ => F::bin(*rng.pick(&["&", "|"]), inner, F::hyb("@", &y, None, F::prop(rng.pick(props)))),
            };
            F::hyb(op, &y, d.as_deref(), body)
        }
        _ => {
            if scope.is_empty() {
                placed(rng, world, cfg, g, depth_left - 1, scope)
            } else {
                let y = rng.pick(scope).clone();
                F::hyb("@", &y, None, placed(rng, world, cfg, g, depth_left - 1, scope))
            }
        }
    }
}

pub fn generate(rng: &Rng, world: &World) -> C12 {
    let mut r = rng.fork("c12.script");
    let mut cfg = crate::c04::gen_cfg(world, &mut r);
    cfg.pattern_weight = 6;
    cfg.max_size = if crate::c04::big_model() { r.range(4, 8) } else { r.range(5, 14) };
    let plain_batch = r.chance(1, 4) || cfg.labels.is_empty();
    let world_for_gen = if plain_batch {
        cfg.labels.clear();
        cfg.allow_wild = false;
        let mut w = world.clone();
        w.context.clear();
        w
    } else {
        world.clone()
    };
    let pool = Pool::generate(&mut r, &cfg);
    let g = Gen { cfg: &cfg, pool: &pool };
    let n = if crate::c04::big_model() { r.weighted(&[0, 4, 3]) } else { r.weighted(&[0, 4, 4, 3, 2]) };
    let mut batch: Vec<F> = Vec::new();
    while batch.len() < n {
        let c = if batch.is_empty() { 0 } else { r.weighted(&[6, 2, 1, 2, 1]) };
        let f = match c {
            0 => {
                let depth = if crate::c04::big_model() { r.range(0, 2) } else { r.range(0, 3) };
                let f = placed(&mut r, &world_for_gen, &cfg, &g, depth, &mut Vec::new());
                if f.is_closed() && f.well_scoped() && f.quant_depth() <= cfg.max_depth.max(1) { f } else { attractor("x") }
            }
            1 => {
                let src = r.pick(&batch).clone();
                fgen::alpha_rename(&mut r, &src)
            }
            2 => {
                // the twin of an earlier member in the same batch
                let src = r.pick(&batch).clone();
                twin(&src)
            }
            3 => {
                // formulae that share the patterns' sub-formulae
                let v = fresh(&mut r, &[]);
                let body = match r.below(4) {
                    0 => F::un("AG", F::un("EF", F::var(&v))),
                    1 => F::un("EF", F::var(&v)),
                    2 => F::un("AX", F::var(&v)),
                    _ => F::bin("&", F::un("AX", F::var(&v)), F::un("AG", F::un("EF", F::var(&v)))),
                };
                let op = *r.pick(&["3", "V", "!"]);
                if op == "!" {
                    F::hyb("!", &v, None, F::bin("&", body, F::prop(r.pick(&cfg.props))))
                } else {
                    F::hyb(op, &v, None, F::hyb("@", &v, None, body))
                }
            }
            _ => g.formula(&mut r),
        };
        if f.quant_depth() <= world.k as usize {
            batch.push(f);
        } else {
            batch.push(steady("x"));
        }
    }
    let plain = batch.iter().all(|f| f.is_plain());
    let mut hs = rng.fork("c12.hash");
    let mut variants = Vec::new();
    variants.push(Variant { order: (0..n).collect(), mode: random_mode(&mut r, plain), obs: ObsKind::Record, hash_seed: hs.next_u64() });
    let mut perm: Vec<usize> = (0..n).collect();
    r.shuffle(&mut perm);
    variants.push(Variant { order: perm, mode: random_mode(&mut r, plain), obs: random_obs(&mut r, world), hash_seed: hs.next_u64() });
    let mut rep: Vec<usize> = (0..n).collect();
    let pos = r.below(rep.len() + 1);
    rep.insert(pos, r.below(n));
    variants.push(Variant { order: rep, mode: random_mode(&mut r, plain), obs: random_obs(&mut r, world), hash_seed: hs.next_u64() });
    let prelude = if r.chance(1, 3) { Some(crate::c04::sibling_prelude(&mut r, world)) } else { None };
    C12 { batch, ref_hash_seed: hs.next_u64(), alone_hash_seed: hs.next_u64(), variants, prelude }
}

pub fn check(world: &World, sc: &C12) -> Report {
    let mut rep = Report::default();
    let env = match world.build() {
        Ok(e) => e,
        Err(e) => {
            rep.skipped = Some(format!("world does not build: {e}"));
            return rep;
        }
    };
    // reference: the twin, evaluated generically with sharing disabled
    let mut refs: Vec<Gcv> = Vec::new();
    let mut npat = (0usize, 0usize);
    for (i, f) in sc.batch.iter().enumerate() {
        let t = twin(f);
        let (a, s) = count_patterns(f);
        npat.0 += a;
        npat.1 += s;
        let r = isolated(sc.ref_hash_seed.wrapping_add(i as u64), || evalx::nocache(&env, &t));
        rep.event(format!("twin {i} {}", r.ok().map(evalx::set_sig).unwrap_or(r.describe())));
        match r {
            Outcome::Ok(s) => refs.push(s),
            other => {
                rep.skipped = Some(format!("generic evaluation of twin {i} failed: {}", other.describe()));
                return rep;
            }
        }
    }
    // from here on every evaluation thread first analyses the sibling network (if any)
    evalx::set_prelude(sc.prelude.clone());
    rep.probe("runs_with_prior_history_in_thread", sc.prelude.is_some() as u64);
    rep.probe("worlds_with_caller_restricted_colours", world.restrict.is_some() as u64);
    rep.probe("batches", 1);
    rep.probe("formulae", sc.batch.len() as u64);
    rep.probe("attractor_pattern_sites", npat.0 as u64);
    rep.probe("steady_pattern_sites", npat.1 as u64);
    rep.probe("formulae_with_near_miss_only", sc.batch.iter().filter(|f| count_patterns(f) == (0, 0)).count() as u64);
    rep.probe(
        "pattern_inside_restricted_scope",
        sc.batch
            .iter()
            .map(|f| {
                f.paths()
                    .iter()
                    .filter(|p| {
                        let sub = f.at(p);
                        let (a, s) = count_patterns(sub);
                        matches!(sub, F::Hyb("!", _, None, _)) && a + s >= 1 && f.scope_at(p).iter().any(|(_, d)| d.is_some())
                    })
                    .count() as u64
            })
            .sum(),
    );
    // alone: the formula itself (shortcuts active) with and without sharing
    for (i, f) in sc.batch.iter().enumerate() {
        let has_pattern = count_patterns(f) != (0, 0);
        let oracle = if has_pattern { "pattern_vs_twin" } else { "near_miss_vs_twin" };
        for (tag, which) in [("nocache", 0), ("alone", 1)] {
            let r = isolated(sc.alone_hash_seed.wrapping_add(2 * i as u64 + which), || {
                if which == 0 { evalx::nocache(&env, f) } else { evalx::alone(&env, f) }
            });
            rep.event(format!("{tag} {i} {}", r.ok().map(evalx::set_sig).unwrap_or(r.describe())));
            match r {
                Outcome::Ok(s) => {
                    if !evalx::same_set(&s, &refs[i]) {
                        rep.violate(
                            oracle,
                            format!(
                                "formula {i} `{}` ({tag}): {} (formula vs generic evaluation of its twin `{}`)",
                                f.render(),
                                evalx::describe_diff(&env, &s, &refs[i]),
                                twin(f).render()
                            ),
                        );
                    }
                }
                other => {
                    rep.violate(oracle, format!("formula {i} `{}` ({tag}): twin evaluates, formula {}", f.render(), other.describe()));
                }
            }
        }
    }
    // the self-loop-free entry point (model_check_formula_unsafe_ex) on formulae without
    // self-loop-dependent operators: the attractor shortcut must still equal the generic twin
    for (i, f) in sc.batch.iter().enumerate() {
        if !f.is_plain() {
            continue;
        }
        let g = self_loop_free(f);
        if count_patterns(&g).0 == 0 {
            continue;
        }
        let text = g.render();
        let empty = env.graph.mk_empty_colored_vertices();
        let want = isolated(sc.ref_hash_seed.wrapping_add(500 + i as u64), || evalx::nocache_with(&env, &twin(&g), Some(empty.clone())));
        let got = isolated(sc.alone_hash_seed.wrapping_add(500 + i as u64), || {
            biodivine_hctl_model_checker::model_checking::model_check_formula_unsafe_ex(&text, &env.graph)
        });
        rep.probe("self_loop_free_variant_checked", 1);
        rep.event(format!("unsafe_ex {i} {} {}", got.ok().map(evalx::set_sig).unwrap_or(got.describe()), want.ok().map(evalx::set_sig).unwrap_or(want.describe())));
        match (&got, &want) {
            (Outcome::Ok(a), Outcome::Ok(b)) => {
                if !evalx::same_set(a, b) {
                    rep.violate(
                        "unsafe_ex_pattern_vs_twin",
                        format!("`{text}` through model_check_formula_unsafe_ex: {} (vs generic evaluation of its twin without self-loops)", evalx::describe_diff(&env, a, b)),
                    );
                }
            }
            (other, Outcome::Ok(_)) => rep.violate("unsafe_ex_pattern_vs_twin", format!("`{text}` through model_check_formula_unsafe_ex: {}", other.describe())),
            _ => {}
        }
    }
    run_variants(
        &env,
        &sc.batch,
        &refs,
        &sc.variants,
        &mut rep,
        ["batch_pattern_vs_twin", "permuted_batch_pattern_vs_twin", "repeated_batch_pattern_vs_twin"],
        "generic evaluation of the twin",
    );
    evalx::set_prelude(None);
    let mut sig = sc.prelude.is_some() as u64;
    for f in &sc.batch {
        sig ^= fnv1a(f.render().as_bytes()).rotate_left(3);
    }
    for v in &sc.variants {
        sig ^= fnv1a(format!("{:?}{}", v.order, v.mode.name()).as_bytes()).rotate_left(9);
    }
    rep.signature = Some(sig);
    rep
}

pub fn shrinks(sc: &C12) -> Vec<C12> {
    let as04 = crate::c04::C04 {
        batch: sc.batch.clone(),
        ref_hash_seed: sc.ref_hash_seed,
        nocache_hash_seed: sc.alone_hash_seed,
        variants: sc.variants.clone(),
        prelude: None,
    };
    let mut out: Vec<C12> = crate::c04::shrinks(&as04)
        .into_iter()
        .map(|c| C12 { batch: c.batch, ref_hash_seed: c.ref_hash_seed, alone_hash_seed: c.nocache_hash_seed, variants: c.variants, prelude: sc.prelude.clone() })
        .collect();
    if sc.prelude.is_some() {
        let mut s = sc.clone();
        s.prelude = None;
        out.insert(0, s);
    }
    // no variants at all (alone-only violation)
    if !sc.variants.is_empty() {
        let mut s = sc.clone();
        s.variants.clear();
        out.insert(0, s);
    }
    let _ = Mode::ExtDirty;
    out
}
