//! C12 (stub, to be filled in)
use crate::prng::Rng;
use crate::scen::Report;
use crate::world::World;
use serde_json::{Value, json};

#[derive(Clone, Debug, PartialEq)]
pub struct C12 {}
impl C12 {
    pub fn to_json(&self) -> Value { json!({}) }
    pub fn from_json(_v: &Value) -> Result<C12, String> { Ok(C12 {}) }
}
pub fn generate(_rng: &Rng, _world: &World) -> C12 { C12 {} }
pub fn check(_world: &World, _sc: &C12) -> Report { Report::default() }
pub fn shrinks(_sc: &C12) -> Vec<C12> { Vec::new() }
