//! A *case* is one explicit, self-contained simulated history: world + scenario. It is what a
//! run generates from its seed, what the minimiser shrinks and what a replay file contains.

use crate::prng::Rng;
use crate::scen::Report;
use crate::world::{World, WorldCfg, gen_world};
use crate::{c04, c10, c12, c16, c17};
use biodivine_lib_param_bn::BooleanNetwork;
use biodivine_lib_param_bn::symbolic_async_graph::SymbolicAsyncGraph;
use serde_json::{Value, json};
use std::time::{Duration, Instant};

#[derive(Clone, Debug, PartialEq)]
pub enum Scenario {
    C04(c04::C04),
    C10(c10::C10),
    C12(c12::C12),
    C16(c16::C16),
    C17(c17::C17),
}

#[derive(Clone, Debug, PartialEq)]
pub struct Case {
    pub property: String,
    pub world: World,
    pub scenario: Scenario,
}

impl Case {
    pub fn to_json(&self) -> Value {
        let sc = match &self.scenario {
            Scenario::C04(s) => s.to_json(),
            Scenario::C10(s) => s.to_json(),
            Scenario::C12(s) => s.to_json(),
            Scenario::C16(s) => s.to_json(),
            Scenario::C17(s) => s.to_json(),
        };
        json!({"property": self.property, "engine": if self.property == "C17" { "cli" } else { "session" }, "world": self.world.to_json(), "scenario": sc})
    }

    pub fn from_json(v: &Value) -> Result<Case, String> {
        let property = v["property"].as_str().ok_or("property")?.to_string();
        let world = World::from_json(&v["world"])?;
        let scenario = match property.as_str() {
            "C04" => Scenario::C04(c04::C04::from_json(&v["scenario"])?),
            "C10" => Scenario::C10(c10::C10::from_json(&v["scenario"])?),
            "C12" => Scenario::C12(c12::C12::from_json(&v["scenario"])?),
            "C16" => Scenario::C16(c16::C16::from_json(&v["scenario"])?),
            "C17" => Scenario::C17(c17::C17::from_json(&v["scenario"])?),
            p => return Err(format!("unknown property {p}")),
        };
        Ok(Case { property, world, scenario })
    }

    /// Generate the case of run `run_seed` for `property`. Pure function of its arguments
    /// (`model`: use this network text instead of a generated one).
    pub fn generate(property: &str, run_seed: u64, tier: &str, model: Option<&str>) -> Case {
        let rng = Rng::new(run_seed);
        let mut wr = rng.fork("world.cfg");
        let cfg = match property {
            "C16" => WorldCfg { min_k: wr.below(3) as u16, max_extra_k: 1, max_ctx: 2, allow_restrict: false },
            "C17" => WorldCfg { min_k: 0, max_extra_k: 0, max_ctx: 0, allow_restrict: false },
            "C12" if model.is_none() => WorldCfg { min_k: wr.range(1, 3) as u16, max_extra_k: 1, max_ctx: 4, allow_restrict: true },
            _ if model.is_some() => WorldCfg { min_k: wr.range(1, 2) as u16, max_extra_k: 0, max_ctx: 3, allow_restrict: true },
            _ => WorldCfg { min_k: wr.weighted(&[1, 4, 4, 3]) as u16, max_extra_k: 1, max_ctx: 4, allow_restrict: true },
        };
        let world = match model {
            Some(m) => {
                let mut r = rng.fork("world.on_model");
                match crate::world::world_on_model(&mut r, &cfg, m.to_string()) {
                    Some(w) => w,
                    None => gen_world(&rng, &cfg).0,
                }
            }
            None => gen_world(&rng, &cfg).0,
        };
        let scenario = match property {
            "C04" => Scenario::C04(c04::generate(&rng, &world)),
            "C10" => Scenario::C10(c10::generate(&rng, &world)),
            "C12" => Scenario::C12(c12::generate(&rng, &world)),
            "C16" => Scenario::C16(c16::generate(&rng, &world, tier)),
            "C17" => Scenario::C17(c17::generate(&rng, &world, tier)),
            p => panic!("unknown property {p}"),
        };
        Case { property: property.to_string(), world, scenario }
    }

    pub fn check(&self, sandbox: &str) -> Report {
        match &self.scenario {
            Scenario::C04(s) => c04::check(&self.world, s),
            Scenario::C10(s) => c10::check(&self.world, s, sandbox),
            Scenario::C12(s) => c12::check(&self.world, s),
            Scenario::C16(s) => c16::check(&self.world, s, sandbox),
            Scenario::C17(s) => c17::check(&self.world, s, sandbox),
        }
    }

    fn shrinks(&self) -> Vec<Case> {
        let mut out: Vec<Case> = Vec::new();
        let scs: Vec<Scenario> = match &self.scenario {
            Scenario::C04(s) => c04::shrinks(s).into_iter().map(Scenario::C04).collect(),
            Scenario::C10(s) => c10::shrinks(s).into_iter().map(Scenario::C10).collect(),
            Scenario::C12(s) => c12::shrinks(s).into_iter().map(Scenario::C12).collect(),
            Scenario::C16(s) => c16::shrinks(s).into_iter().map(Scenario::C16).collect(),
            Scenario::C17(s) => c17::shrinks(s).into_iter().map(Scenario::C17).collect(),
        };
        for sc in scs {
            out.push(Case { property: self.property.clone(), world: self.world.clone(), scenario: sc });
        }
        if self.property == "C17" {
            return out;
        }
        // world: simpler context sets (empty / unit)
        if let Ok(bn) = BooleanNetwork::try_from(self.world.model.as_str()) {
            if let Ok(g) = SymbolicAsyncGraph::new(&bn) {
                let empty = g.mk_empty_colored_vertices().as_bdd().to_string();
                let unit = g.mk_unit_colored_vertices().as_bdd().to_string();
                for (l, s) in &self.world.context {
                    for repl in [&empty, &unit] {
                        if s != repl {
                            let mut w = self.world.clone();
                            w.context.insert(l.clone(), repl.clone());
                            out.push(Case { property: self.property.clone(), world: w, scenario: self.scenario.clone() });
                        }
                    }
                }
            }
        }
        // world: no caller-side colour restriction
        if self.world.restrict.is_some() {
            let mut w = self.world.clone();
            w.restrict = None;
            out.push(Case { property: self.property.clone(), world: w, scenario: self.scenario.clone() });
        }
        // world: fewer spare variable sets
        if self.world.k > 0 {
            let mut w = self.world.clone();
            w.k -= 1;
            out.push(Case { property: self.property.clone(), world: w, scenario: self.scenario.clone() });
        }
        // world: drop model lines (only kept if the network still builds and the violation persists)
        let lines: Vec<&str> = self.world.model.lines().collect();
        if lines.len() > 1 {
            for i in 0..lines.len() {
                let mut l2 = lines.clone();
                l2.remove(i);
                let text = l2.join("\n") + "\n";
                let ok = BooleanNetwork::try_from(text.as_str())
                    .ok()
                    .map(|bn| {
                        bn.num_vars() == lines_vars(&self.world.model)
                            && SymbolicAsyncGraph::new(&bn).map(|g| !g.unit_colored_vertices_is_empty()).unwrap_or(false)
                    })
                    .unwrap_or(false);
                if ok {
                    let mut w = self.world.clone();
                    w.model = text;
                    out.push(Case { property: self.property.clone(), world: w, scenario: self.scenario.clone() });
                }
            }
        }
        out
    }
}

trait UnitEmpty {
    fn unit_colored_vertices_is_empty(&self) -> bool;
}
impl UnitEmpty for SymbolicAsyncGraph {
    fn unit_colored_vertices_is_empty(&self) -> bool {
        use biodivine_lib_param_bn::biodivine_std::traits::Set;
        self.unit_colored_vertices().is_empty()
    }
}

fn lines_vars(model: &str) -> usize {
    BooleanNetwork::try_from(model).map(|b| b.num_vars()).unwrap_or(0)
}

/// Greedy delta debugging while the *same oracle* keeps failing.
pub fn minimise(case: &Case, oracle: &str, sandbox: &str, budget: Duration) -> (Case, usize) {
    let start = Instant::now();
    let mut cur = case.clone();
    let mut steps = 0usize;
    'outer: loop {
        if start.elapsed() > budget {
            break;
        }
        for cand in cur.shrinks() {
            if start.elapsed() > budget {
                break 'outer;
            }
            // context sets were generated for the original network: a changed model may make
            // them unusable; `check` reports that as skipped, which is not a violation
            let r = cand.check(sandbox);
            if r.violation.as_ref().map(|v| v.oracle.as_str()) == Some(oracle) {
                cur = cand;
                steps += 1;
                continue 'outer;
            }
        }
        break;
    }
    (cur, steps)
}
