//! C10 - pre-computed results can be substituted for closed sub-formulae.
//!
//! History explored: a result is *produced* by one evaluation (the raw set of a closed
//! sub-formula), optionally *stored* in a result archive and reloaded into a rebuilt world, and
//! *consumed* by another evaluation in which the sub-formula is replaced by a wild-card bound to
//! that set - alone, with sharing disabled, and as a member of batches whose other members use the
//! same labels, in several orders / entry points / observers / hash seeds.
//! Oracle: the rewritten formula's result equals the original formula's result; a context that
//! contains every label used never produces an error or a panic; a plain formula gives the same
//! set through the plain and the extended entry points.

use crate::ast::F;
use crate::c04::{Variant, random_obs, run_variants_judged};
use crate::evalx::{self, Gcv, Mode, ObsKind};
use crate::exec::{Outcome, isolated};
use crate::fgen::{self, Gen, Pool};
use crate::prng::{Rng, fnv1a};
use crate::scen::Report;
use crate::world::{Env, World};
use biodivine_hctl_model_checker::generate_output::build_result_archive;
use biodivine_hctl_model_checker::load_inputs::load_bdd_bundle;
use biodivine_hctl_model_checker::model_checking as mc;
use serde_json::{Value, json};
use std::collections::{BTreeMap, HashMap};

#[derive(Clone, Debug, PartialEq)]
pub struct C10 {
    /// the formula with wild-cards in place of the replaced sub-formulae
    pub rewritten: F,
    /// label -> the closed sub-formula whose raw result the label is bound to
    pub bindings: BTreeMap<String, F>,
    /// store the raw results in an archive and reload them before use
    pub via_archive: bool,
    /// other members of the batch (may use the same labels)
    pub extras: Vec<F>,
    pub variants: Vec<Variant>,
    pub hash_seed: u64,
    /// session use of the public evaluation context: after the first evaluation the same labels
    /// are bound again, to the raw results of *these* sub-formulae, in the same `EvalContext`
    pub rebind: Option<BTreeMap<String, F>>,
}

pub fn expand(f: &F, bindings: &BTreeMap<String, F>) -> F {
    match f {
        F::Wild(w) => match bindings.get(w) {
            Some(sub) => sub.clone(),
            None => f.clone(),
        },
        F::Un(op, a) => F::Un(op, Box::new(expand(a, bindings))),
        F::Bin(op, a, b) => F::Bin(op, Box::new(expand(a, bindings)), Box::new(expand(b, bindings))),
        F::Hyb(op, v, d, a) => F::Hyb(op, v.clone(), d.clone(), Box::new(expand(a, bindings))),
        _ => f.clone(),
    }
}

impl C10 {
    pub fn original(&self) -> F {
        expand(&self.rewritten, &self.bindings)
    }
    pub fn to_json(&self) -> Value {
        json!({
            "rewritten": self.rewritten.to_json(),
            "rewritten_text": self.rewritten.render(),
            "original_text": self.original().render(),
            "bindings": self.bindings.iter().map(|(l, f)| (l.clone(), f.to_json())).collect::<BTreeMap<_, _>>(),
            "bindings_text": self.bindings.iter().map(|(l, f)| (l.clone(), f.render())).collect::<BTreeMap<_, _>>(),
            "via_archive": self.via_archive,
            "extras": self.extras.iter().map(|f| f.to_json()).collect::<Vec<_>>(),
            "extras_text": self.extras.iter().map(|f| f.render()).collect::<Vec<_>>(),
            "hash_seed": self.hash_seed,
            "rebind": self.rebind.as_ref().map(|m| m.iter().map(|(l, f)| (l.clone(), f.to_json())).collect::<BTreeMap<_, _>>()),
            "rebind_text": self.rebind.as_ref().map(|m| m.iter().map(|(l, f)| (l.clone(), f.render())).collect::<BTreeMap<_, _>>()),
            "variants": self.variants.iter().map(|v| json!({
                "order": v.order, "mode": v.mode.name(), "observer": v.obs.to_json(), "hash_seed": v.hash_seed
            })).collect::<Vec<_>>(),
        })
    }
    pub fn from_json(v: &Value) -> Result<C10, String> {
        let mut bindings = BTreeMap::new();
        if let Some(m) = v["bindings"].as_object() {
            for (l, f) in m {
                bindings.insert(l.clone(), F::from_json(f)?);
            }
        }
        let mut extras = Vec::new();
        for f in v["extras"].as_array().unwrap_or(&Vec::new()) {
            extras.push(F::from_json(f)?);
        }
        let c = crate::c04::C04::from_json(&json!({"batch": [], "variants": v["variants"]}))?;
        let rebind = match v["rebind"].as_object() {
            Some(m) => {
                let mut out = BTreeMap::new();
                for (l, f) in m {
                    out.insert(l.clone(), F::from_json(f)?);
                }
                Some(out)
            }
            None => None,
        };
        Ok(C10 {
            rebind,
            rewritten: F::from_json(&v["rewritten"])?,
            bindings,
            via_archive: v["via_archive"].as_bool().unwrap_or(false),
            extras,
            variants: c.variants,
            hash_seed: v["hash_seed"].as_u64().unwrap_or(0),
        })
    }
}

const NEW_LABELS: [&str; 14] = ["r0", "r1", "sub_2", "R", "res3", "t_", "2", "00", "TRUE", "V", "1", "0", "true", "false"];

fn overlaps(a: &[usize], b: &[usize]) -> bool {
    let n = a.len().min(b.len());
    a[..n] == b[..n]
}

pub fn generate(rng: &Rng, world: &World) -> C10 {
    let mut r = rng.fork("c10.script");
    let mut cfg = crate::c04::gen_cfg(world, &mut r);
    cfg.max_size = if crate::c04::big_model() { r.range(5, 10) } else { r.range(8, 24) };
    cfg.pattern_weight = 2;
    if r.chance(1, 3) {
        cfg.labels.clear();
        cfg.allow_wild = false;
    }
    let pool = Pool::generate(&mut r, &cfg);
    let g = Gen { cfg: &cfg, pool: &pool };
    // find a formula with closed sub-formulae worth replacing
    let mut original = F::Const(true);
    let mut paths: Vec<Vec<usize>> = Vec::new();
    for _ in 0..12 {
        original = g.formula(&mut r);
        paths = fgen::closed_subformula_paths(&original, true);
        if !paths.is_empty() {
            break;
        }
    }
    let mut chosen: Vec<Vec<usize>> = Vec::new();
    if !paths.is_empty() {
        let want = r.weighted(&[0, 5, 3, 2]);
        for _ in 0..12 {
            if chosen.len() >= want {
                break;
            }
            let p = r.pick(&paths).clone();
            if chosen.iter().all(|c| !overlaps(c, &p)) {
                chosen.push(p);
            }
        }
    }
    let mut labels: Vec<&str> = NEW_LABELS.iter().copied().filter(|l| !world.context.contains_key(*l)).collect();
    r.shuffle(&mut labels);
    let mut bindings: BTreeMap<String, F> = BTreeMap::new();
    let mut rewritten = original.clone();
    for p in &chosen {
        let sub = original.at(p).clone();
        // identical sub-formulae may share a label (half of the time)
        let existing = bindings.iter().find(|(_, f)| **f == sub).map(|(l, _)| l.clone());
        let label = match existing {
            Some(l) if r.chance(1, 2) => l,
            _ => {
                let l = labels[bindings.len() % labels.len()].to_string();
                if bindings.contains_key(&l) { format!("{l}{}", bindings.len()) } else { l }
            }
        };
        bindings.insert(label.clone(), sub);
        rewritten = rewritten.replace_at(p, &F::Wild(label));
    }
    // other members of the batch
    let mut extras = Vec::new();
    let bl: Vec<String> = bindings.keys().cloned().collect();
    for _ in 0..r.weighted(&[3, 3, 2, 1]) {
        let f = match r.below(6) {
            0 if !bl.is_empty() => F::wild(r.pick(&bl)),
            1 if !bl.is_empty() => F::un(*r.pick(&["EX", "AX", "~", "EF"]), F::wild(r.pick(&bl))),
            2 if !bl.is_empty() => {
                let v = *r.pick(&fgen::NAME_POOL);
                F::hyb("3", v, Some(r.pick(&bl).as_str()), F::hyb("@", v, None, F::un("AX", F::var(v))))
            }
            3 => original.clone(),
            4 if !bl.is_empty() => bindings[r.pick(&bl)].clone(),
            _ => g.formula(&mut r),
        };
        extras.push(f);
    }
    let n = 1 + extras.len();
    let mut hs = rng.fork("c10.hash");
    let mut variants = Vec::new();
    let modes = [Mode::ExtDirty, Mode::ExtDirty, Mode::ExtSan, Mode::CliLoop];
    let mut order: Vec<usize> = (0..n).collect();
    variants.push(Variant { order: order.clone(), mode: *r.pick(&modes), obs: random_obs(&mut r, world), hash_seed: hs.next_u64() });
    r.shuffle(&mut order);
    variants.push(Variant { order: order.clone(), mode: *r.pick(&modes), obs: random_obs(&mut r, world), hash_seed: hs.next_u64() });
    let pos = r.below(order.len() + 1);
    order.insert(pos, 0);
    variants.push(Variant { order, mode: *r.pick(&modes), obs: ObsKind::None, hash_seed: hs.next_u64() });
    // a second binding of the same labels for the session scenario
    let rebind = if !bindings.is_empty() && r.chance(1, 3) {
        let mut m = BTreeMap::new();
        let mut c2 = cfg.clone();
        c2.labels.clear();
        c2.allow_wild = false;
        c2.max_size = 6;
        let p2 = Pool::generate(&mut r, &c2);
        let g2 = Gen { cfg: &c2, pool: &p2 };
        for l in bindings.keys() {
            m.insert(l.clone(), g2.formula(&mut r));
        }
        Some(m)
    } else {
        None
    };
    C10 { rewritten, bindings, via_archive: r.chance(1, 3), extras, variants, hash_seed: hs.next_u64(), rebind }
}

fn with_ctx(env: &Env, ctx: HashMap<String, Gcv>) -> Env {
    Env { bn: env.bn.clone(), graph: env.graph.clone(), ctx, var_names: env.var_names.clone() }
}

pub fn check(world: &World, sc: &C10, sandbox: &str) -> Report {
    let mut rep = Report::default();
    let env = match world.build() {
        Ok(e) => e,
        Err(e) => {
            rep.skipped = Some(format!("world does not build: {e}"));
            return rep;
        }
    };
    let original = sc.original();
    if !original.is_closed() || !original.well_scoped() || sc.bindings.values().any(|f| !f.is_closed()) {
        rep.skipped = Some("scenario is not a closed substitution".to_string());
        return rep;
    }
    rep.probe("scenarios", 1);
    // produce: the original result and the raw results of the replaced sub-formulae
    let want = match isolated(sc.hash_seed, || evalx::alone(&env, &original)) {
        Outcome::Ok(s) => s,
        other => {
            rep.skipped = Some(format!("original formula does not evaluate: {}", other.describe()));
            return rep;
        }
    };
    rep.event(format!("original {}", evalx::set_sig(&want)));
    let mut raws: HashMap<String, Gcv> = HashMap::new();
    for (i, (l, sub)) in sc.bindings.iter().enumerate() {
        match isolated(sc.hash_seed.wrapping_add(1 + i as u64), || evalx::alone(&env, sub)) {
            Outcome::Ok(s) => {
                rep.event(format!("raw {l} {}", evalx::set_sig(&s)));
                raws.insert(l.clone(), s);
            }
            other => {
                rep.skipped = Some(format!("sub-formula for {l} does not evaluate: {}", other.describe()));
                return rep;
            }
        }
    }
    // store: optionally through a result archive and a rebuilt world
    let mut env2_owner: Option<Env> = None;
    if sc.via_archive && !raws.is_empty() {
        let path = format!("{sandbox}/c10-store.zip");
        let _ = std::fs::remove_file(&path);
        let formulae: Vec<String> = sc.bindings.values().map(|f| f.render()).collect();
        let model = env.bn.to_string();
        let ordered: BTreeMap<String, Gcv> = raws.iter().map(|(l, s)| (l.clone(), s.clone())).collect();
        let saved = isolated(sc.hash_seed ^ 0xA1, || {
            // built first thing in the fresh thread: entry order is a function of the seed only
            let mut m: HashMap<String, Gcv> = HashMap::new();
            for (l, s) in &ordered {
                m.insert(l.clone(), s.clone());
            }
            build_result_archive(m, &path, &model, formulae.clone()).map_err(|e| e.to_string())
        });
        if !matches!(saved, Outcome::Ok(())) {
            rep.skipped = Some(format!("fault-free save failed: {}", saved.describe()));
            return rep;
        }
        // "restart": forget everything, rebuild the world, reload
        let fresh = match world.build() {
            Ok(e) => e,
            Err(e) => {
                rep.skipped = Some(e);
                return rep;
            }
        };
        let loaded = isolated(sc.hash_seed ^ 0xA2, || load_bdd_bundle(&path, fresh.graph.symbolic_context()));
        match loaded {
            Outcome::Ok(m) => {
                let mut ctx = fresh.ctx.clone();
                for l in sc.bindings.keys() {
                    match m.get(l) {
                        Some(s) => {
                            ctx.insert(l.clone(), s.clone());
                        }
                        None => {
                            rep.skipped = Some(format!("label {l} missing after reload (C16's business)"));
                            return rep;
                        }
                    }
                }
                rep.probe("stored_and_reloaded", 1);
                env2_owner = Some(with_ctx(&fresh, ctx));
            }
            other => {
                rep.skipped = Some(format!("fault-free reload failed: {}", other.describe()));
                return rep;
            }
        }
        let _ = std::fs::remove_file(&path);
    }
    let env2 = match env2_owner {
        Some(e) => e,
        None => {
            let mut ctx = env.ctx.clone();
            for (l, s) in &raws {
                ctx.insert(l.clone(), s.clone());
            }
            with_ctx(&env, ctx)
        }
    };
    rep.probe("replacements", sc.bindings.values().count() as u64);
    rep.probe("wild_card_occurrences_substituted", sc.bindings.keys().map(|l| sc.rewritten.count_wild(l) as u64).sum());
    rep.probe(
        "substituted_inside_restricted_scope",
        sc.rewritten
            .paths()
            .iter()
            .filter(|p| matches!(sc.rewritten.at(p), F::Wild(w) if sc.bindings.contains_key(w)) && sc.rewritten.scope_at(p).iter().any(|(_, d)| d.is_some()))
            .count() as u64,
    );
    rep.probe(
        "substituted_inside_any_quantifier",
        sc.rewritten
            .paths()
            .iter()
            .filter(|p| matches!(sc.rewritten.at(p), F::Wild(w) if sc.bindings.contains_key(w)) && !sc.rewritten.scope_at(p).is_empty())
            .count() as u64,
    );
    // consume: alone, with sharing disabled
    for (tag, which) in [("alone", 0u64), ("nocache", 1)] {
        let r = isolated(sc.hash_seed.wrapping_add(100 + which), || {
            if which == 0 { evalx::alone(&env2, &sc.rewritten) } else { evalx::nocache(&env2, &sc.rewritten) }
        });
        rep.event(format!("{tag} rewritten {}", r.ok().map(evalx::set_sig).unwrap_or(r.describe())));
        match r {
            Outcome::Ok(s) => {
                if !evalx::same_set(&s, &want) {
                    rep.violate(
                        "substituted_vs_original",
                        format!(
                            "`{}` with {:?} ({tag}): {} (substituted vs original `{}`)",
                            sc.rewritten.render(),
                            sc.bindings.iter().map(|(l, f)| format!("{l}:={}", f.render())).collect::<Vec<_>>(),
                            evalx::describe_diff(&env, &s, &want),
                            original.render()
                        ),
                    );
                }
            }
            other => rep.violate(
                "substituted_fails",
                format!("`{}` ({tag}): the context holds every label, the original evaluates, the substituted formula {}", sc.rewritten.render(), other.describe()),
            ),
        }
    }
    // consume: as a member of batches whose other members use the same labels
    let mut batch = vec![sc.rewritten.clone()];
    let mut refs = vec![want.clone()];
    let mut keep: Vec<usize> = vec![0];
    for (i, e) in sc.extras.iter().enumerate() {
        if e.quant_depth() > world.k as usize || !e.is_closed() || !e.well_scoped() {
            continue;
        }
        if let Outcome::Ok(s) = isolated(sc.hash_seed.wrapping_add(200 + i as u64), || evalx::alone(&env2, e)) {
            batch.push(e.clone());
            refs.push(s);
            keep.push(i + 1);
        }
    }
    // orders refer to 0 = rewritten, i+1 = extras[i]; remap to the members that were kept
    let variants: Vec<Variant> = sc
        .variants
        .iter()
        .map(|v| Variant {
            order: v.order.iter().filter_map(|o| keep.iter().position(|k| k == o)).collect(),
            mode: v.mode,
            obs: v.obs.clone(),
            hash_seed: v.hash_seed,
        })
        .filter(|v| !v.order.is_empty())
        .collect();
    run_variants_judged(
        &env2,
        &batch,
        &refs,
        &variants,
        &mut rep,
        ["substituted_in_batch_vs_original", "substituted_in_batch_vs_original", "substituted_in_batch_vs_original"],
        "the original evaluated alone",
        &|i| i == 0,
    );
    // session: one evaluation context, the labels bound twice (public EvalContext / eval_node API)
    if let Some(second) = &sc.rebind {
        if second.values().all(|f| f.is_closed() && f.well_scoped() && f.quant_depth() <= world.k as usize) && second.keys().all(|l| sc.bindings.contains_key(l)) {
            let mut raws2: HashMap<String, Gcv> = HashMap::new();
            let mut ok = true;
            for (i, (l, sub)) in second.iter().enumerate() {
                match isolated(sc.hash_seed.wrapping_add(300 + i as u64), || evalx::alone(&env, sub)) {
                    Outcome::Ok(s2) => {
                        raws2.insert(l.clone(), s2);
                    }
                    _ => ok = false,
                }
            }
            let mut all2 = sc.bindings.clone();
            for (l, f) in second {
                all2.insert(l.clone(), f.clone());
            }
            let original2 = expand(&sc.rewritten, &all2);
            let want2 = isolated(sc.hash_seed.wrapping_add(350), || evalx::alone(&env, &original2));
            if let (true, Outcome::Ok(want2)) = (ok, want2) {
                let first_ctx: HashMap<String, Gcv> = env2.ctx.clone();
                let r = isolated(sc.hash_seed.wrapping_add(351), || evalx::session_rebind(&env2, &sc.rewritten, &first_ctx, &raws2));
                rep.probe("session_rebinds", 1);
                rep.event(format!("session {}", match &r { Outcome::Ok((a, b)) => format!("{} {}", evalx::set_sig(a), evalx::set_sig(b)), o => o.describe() }));
                match r {
                    Outcome::Ok((first, again)) => {
                        if !evalx::same_set(&first, &want) {
                            rep.violate("substituted_vs_original", format!("session step 1 `{}`: {} (substituted vs original)", sc.rewritten.render(), evalx::describe_diff(&env, &first, &want)));
                        } else if !evalx::same_set(&again, &want2) {
                            rep.violate(
                                "rebound_label_in_session",
                                format!(
                                    "`{}`: labels bound to {:?}, evaluated, then bound to {:?} in the same evaluation context: {} (second evaluation vs original `{}`)",
                                    sc.rewritten.render(),
                                    sc.bindings.iter().map(|(l, f)| format!("{l}:={}", f.render())).collect::<Vec<_>>(),
                                    second.iter().map(|(l, f)| format!("{l}:={}", f.render())).collect::<Vec<_>>(),
                                    evalx::describe_diff(&env, &again, &want2),
                                    original2.render()
                                ),
                            );
                        }
                    }
                    other => rep.violate("substituted_fails", format!("session `{}`: {}", sc.rewritten.render(), other.describe())),
                }
            }
        }
    }
    // plain formula through the extended entry points with an empty context
    if original.is_plain() {
        let text = original.render();
        let empty: HashMap<String, Gcv> = HashMap::new();
        let plain = isolated(sc.hash_seed ^ 0xB1, || mc::model_check_formula_dirty(&text, &env.graph));
        let ext = isolated(sc.hash_seed ^ 0xB2, || mc::model_check_extended_formula_dirty(&text, &env.graph, &empty));
        let ext_multi = isolated(sc.hash_seed ^ 0xB3, || {
            mc::model_check_multiple_extended_formulae_dirty(vec![&text], &env.graph, &empty).map(|v| v[0].clone())
        });
        let plain_san = isolated(sc.hash_seed ^ 0xB4, || mc::model_check_formula(&text, &env.graph));
        let ext_san = isolated(sc.hash_seed ^ 0xB5, || mc::model_check_extended_formula(&text, &env.graph, &empty));
        rep.probe("plain_via_extended", 1);
        rep.event(format!("plain {} ext {}", plain.describe(), ext.describe()));
        match (&plain, &ext, &ext_multi) {
            (Outcome::Ok(a), Outcome::Ok(b), Outcome::Ok(c)) => {
                if !evalx::same_set(a, b) || !evalx::same_set(a, c) {
                    rep.violate("plain_via_extended", format!("`{text}`: plain entry point {} (plain vs extended with empty context)", evalx::describe_diff(&env, a, b)));
                }
            }
            (Outcome::Ok(_), b, c) => {
                rep.violate("plain_via_extended", format!("`{text}`: plain entry point ok, extended {} / {}", b.describe(), c.describe()));
            }
            _ => {}
        }
        match (&plain_san, &ext_san) {
            (Outcome::Ok(a), Outcome::Ok(b)) => {
                if !evalx::same_set(a, b) {
                    rep.violate("plain_via_extended", format!("`{text}`: sanitised plain vs sanitised extended differ"));
                }
            }
            (Outcome::Ok(_), b) => rep.violate("plain_via_extended", format!("`{text}`: sanitised plain ok, sanitised extended {}", b.describe())),
            _ => {}
        }
    }
    if !sc.bindings.is_empty() {
        let mut sig = fnv1a(sc.rewritten.render().as_bytes());
        for (l, f) in &sc.bindings {
            sig ^= fnv1a(format!("{l}{}", f.render()).as_bytes()).rotate_left(11);
        }
        sig ^= sc.via_archive as u64;
        rep.signature = Some(sig);
    }
    rep
}

pub fn shrinks(sc: &C10) -> Vec<C10> {
    let mut out = Vec::new();
    if !sc.variants.is_empty() {
        let mut s = sc.clone();
        s.variants.clear();
        s.extras.clear();
        out.push(s);
    }
    if sc.variants.len() > 1 {
        for i in 0..sc.variants.len() {
            let mut s = sc.clone();
            s.variants = vec![sc.variants[i].clone()];
            out.push(s);
        }
    }
    if sc.via_archive {
        let mut s = sc.clone();
        s.via_archive = false;
        out.push(s);
    }
    if sc.rebind.is_some() {
        let mut s = sc.clone();
        s.rebind = None;
        out.push(s);
    }
    if let Some(m) = &sc.rebind {
        for (l, f) in m {
            for g in f.shrinks() {
                let mut s = sc.clone();
                s.rebind.as_mut().unwrap().insert(l.clone(), g);
                out.push(s);
            }
        }
    }
    // drop an extra (orders refer to extras by index + 1)
    for i in 0..sc.extras.len() {
        let mut s = sc.clone();
        s.extras.remove(i);
        for v in s.variants.iter_mut() {
            v.order = v.order.iter().filter(|x| **x != i + 1).map(|x| if *x > i + 1 { *x - 1 } else { *x }).collect();
        }
        s.variants.retain(|v| !v.order.is_empty());
        out.push(s);
    }
    for (vi, v) in sc.variants.iter().enumerate() {
        if v.order.len() > 1 {
            for j in 0..v.order.len() {
                let mut s = sc.clone();
                s.variants[vi].order.remove(j);
                out.push(s);
            }
        }
        if v.obs != ObsKind::None {
            let mut s = sc.clone();
            s.variants[vi].obs = ObsKind::None;
            out.push(s);
        }
        if v.mode != Mode::ExtDirty {
            let mut s = sc.clone();
            s.variants[vi].mode = Mode::ExtDirty;
            out.push(s);
        }
    }
    // undo one replacement (expand the label again)
    if sc.bindings.len() > 1 {
        for l in sc.bindings.keys() {
            let mut one = BTreeMap::new();
            one.insert(l.clone(), sc.bindings[l].clone());
            let mut s = sc.clone();
            s.rewritten = expand(&sc.rewritten, &one);
            s.bindings.remove(l);
            if let Some(m) = s.rebind.as_mut() {
                m.remove(l);
            }
            out.push(s);
        }
    }
    // shrink the surrounding formula and the replaced sub-formulae
    for g in sc.rewritten.shrinks() {
        let mut s = sc.clone();
        s.bindings.retain(|l, _| g.count_wild(l) > 0);
        if let Some(m) = s.rebind.as_mut() {
            m.retain(|l, _| g.count_wild(l) > 0);
        }
        s.rewritten = g;
        if !s.bindings.is_empty() {
            out.push(s);
        }
    }
    for (l, f) in &sc.bindings {
        for g in f.shrinks() {
            let mut s = sc.clone();
            s.bindings.insert(l.clone(), g);
            out.push(s);
        }
    }
    for i in 0..sc.extras.len() {
        for g in sc.extras[i].shrinks() {
            let mut s = sc.clone();
            s.extras[i] = g;
            out.push(s);
        }
    }
    out
}
