//! C10 (stub, to be filled in)
use crate::prng::Rng;
use crate::scen::Report;
use crate::world::World;
use serde_json::{Value, json};

#[derive(Clone, Debug, PartialEq)]
pub struct C10 {}
impl C10 {
    pub fn to_json(&self) -> Value { json!({}) }
    pub fn from_json(_v: &Value) -> Result<C10, String> { Ok(C10 {}) }
}
pub fn generate(_rng: &Rng, _world: &World) -> C10 { C10 {} }
pub fn check(_world: &World, _sc: &C10, _sandbox: &str) -> Report { Report::default() }
pub fn shrinks(_sc: &C10) -> Vec<C10> { Vec::new() }
