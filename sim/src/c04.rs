//! C04 - sub-formula caching and batch evaluation are observationally transparent.
//!
//! History explored: a batch, evaluated in several orders (permuted, with repetitions), through
//! several entry points, with several observers, each evaluation under its own hash seed.
//! Oracle: every position of every such evaluation equals the formula evaluated alone, which in
//! turn equals the formula evaluated with sharing disabled.

use crate::ast::F;
use crate::evalx::{self, Gcv, Mode, ObsKind, Observer};
use crate::exec::{Outcome, isolated};
use crate::fgen::{self, Gen, GenCfg, Pool};
use crate::prng::{Rng, fnv1a};
use crate::scen::Report;
use crate::world::{Env, World};
use biodivine_hctl_model_checker::evaluation::eval_context::EvalContext;
use biodivine_hctl_model_checker::preprocessing::parser::parse_and_minimize_extended_formula;
use serde_json::{Value, json};

#[derive(Clone, Debug, PartialEq)]
pub struct Variant {
    /// indices into `batch` (a permutation, possibly with repetitions)
    pub order: Vec<usize>,
    pub mode: Mode,
    pub obs: ObsKind,
    pub hash_seed: u64,
}

#[derive(Clone, Debug, PartialEq)]
pub struct C04 {
    pub batch: Vec<F>,
    pub ref_hash_seed: u64,
    pub nocache_hash_seed: u64,
    pub variants: Vec<Variant>,
    /// what every evaluating thread did before (another network analysed first); not applied to
    /// the sharing-disabled reference
    pub prelude: Option<evalx::Prelude>,
}

pub fn prelude_to_json(p: &Option<evalx::Prelude>) -> Value {
    match p {
        Some(p) => json!({"model": p.model, "k": p.k, "formulae": p.formulae}),
        None => Value::Null,
    }
}

pub fn prelude_from_json(v: &Value) -> Option<evalx::Prelude> {
    if v.is_object() {
        Some(evalx::Prelude {
            model: v["model"].as_str().unwrap_or("").to_string(),
            k: v["k"].as_u64().unwrap_or(1) as u16,
            formulae: v["formulae"].as_array().map(|a| a.iter().map(|s| s.as_str().unwrap_or("").to_string()).collect()).unwrap_or_default(),
        })
    } else {
        None
    }
}

/// A sibling of the world's network: same variables, regulation constraints dropped, one update
/// function negated; analysed by the evaluating thread just before the evaluation under test.
pub fn sibling_prelude(r: &mut Rng, world: &World) -> evalx::Prelude {
    let mut negated = false;
    let lines: Vec<String> = world
        .model
        .lines()
        .map(|l| {
            if l.starts_with('$') {
                if !negated && r.chance(1, 2) {
                    if let Some((head, body)) = l.split_once(':') {
                        negated = true;
                        return format!("{head}: !({})", body.trim());
                    }
                }
                l.to_string()
            } else {
                let mut s = l.to_string();
                for arrow in [" ->? ", " -|? ", " -?? ", " -> ", " -| ", " -? "] {
                    if s.contains(arrow) {
                        s = s.replace(arrow, " -?? ");
                        break;
                    }
                }
                s
            }
        })
        .collect();
    let mut model = lines.join("\n") + "\n";
    // half of the time the first and the last variable swap names: the same symbolic width, but
    // parameters and spare variables sit at other positions of the BDD variable order
    let names = world.var_names();
    if names.len() >= 2 && r.chance(1, 2) {
        let (a, b) = (names[0].clone(), names[names.len() - 1].clone());
        let mut out = String::new();
        let mut tok = String::new();
        let flush = |tok: &mut String, out: &mut String| {
            if *tok == a {
                out.push_str(&b);
            } else if *tok == b {
                out.push_str(&a);
            } else {
                out.push_str(tok);
            }
            tok.clear();
        };
        for ch in model.chars() {
            if ch.is_alphanumeric() || ch == '_' {
                tok.push(ch);
            } else {
                flush(&mut tok, &mut out);
                out.push(ch);
            }
        }
        flush(&mut tok, &mut out);
        model = out;
    }
    evalx::Prelude {
        model,
        k: world.k,
        formulae: vec![
            "!{x}: AG EF {x}".to_string(),
            "!{x}: AX {x}".to_string(),
            "3{x}: @{x}: EX true".to_string(),
            // a duplicate that is shared under two variable names (a cache hit that renames)
            "(3{x}: (@{x}: (EF {x}))) & (3{x}: (3{y}: (@{y}: (EF {y}))))".to_string(),
        ],
    }
}

impl C04 {
    pub fn to_json(&self) -> Value {
        json!({
            "batch": self.batch.iter().map(|f| f.to_json()).collect::<Vec<_>>(),
            "batch_text": self.batch.iter().map(|f| f.render()).collect::<Vec<_>>(),
            "ref_hash_seed": self.ref_hash_seed,
            "nocache_hash_seed": self.nocache_hash_seed,
            "prelude": prelude_to_json(&self.prelude),
            "variants": self.variants.iter().map(|v| json!({
                "order": v.order, "mode": v.mode.name(), "observer": v.obs.to_json(), "hash_seed": v.hash_seed
            })).collect::<Vec<_>>(),
        })
    }
    pub fn from_json(v: &Value) -> Result<C04, String> {
        let mut batch = Vec::new();
        for f in v["batch"].as_array().ok_or("batch")? {
            batch.push(F::from_json(f)?);
        }
        let mut variants = Vec::new();
        for x in v["variants"].as_array().ok_or("variants")? {
            variants.push(Variant {
                order: x["order"].as_array().ok_or("order")?.iter().map(|i| i.as_u64().unwrap_or(0) as usize).collect(),
                mode: Mode::from_name(x["mode"].as_str().unwrap_or("")).ok_or("mode")?,
                obs: ObsKind::from_json(&x["observer"]),
                hash_seed: x["hash_seed"].as_u64().unwrap_or(0),
            });
        }
        Ok(C04 {
            batch,
            ref_hash_seed: v["ref_hash_seed"].as_u64().unwrap_or(0),
            nocache_hash_seed: v["nocache_hash_seed"].as_u64().unwrap_or(1),
            variants,
            prelude: prelude_from_json(&v["prelude"]),
        })
    }
}

/// Set when every run uses a bundled benchmark model (tens of variables): formulae are kept small
/// and free of the expensive nested fixed-point operators, so that one run stays in the seconds.
pub static BIG_MODEL: std::sync::atomic::AtomicBool = std::sync::atomic::AtomicBool::new(false);

pub fn big_model() -> bool {
    BIG_MODEL.load(std::sync::atomic::Ordering::Relaxed)
}

pub fn gen_cfg(world: &World, rng: &mut Rng) -> GenCfg {
    if big_model() {
        return GenCfg {
            props: world.var_names(),
            labels: world.context.keys().cloned().collect(),
            max_depth: (world.k as usize).min(2),
            max_size: rng.range(4, 9),
            domain_num: 1,
            domain_den: 3,
            pattern_weight: 1,
            allow_wild: true,
            heavy_ops: false,
        };
    }
    GenCfg {
        props: world.var_names(),
        labels: world.context.keys().cloned().collect(),
        max_depth: world.k as usize,
        max_size: rng.range(6, 22),
        domain_num: 1,
        domain_den: 3,
        pattern_weight: 1,
        allow_wild: true,
        heavy_ops: true,
    }
}

pub fn random_obs(rng: &mut Rng, world: &World) -> ObsKind {
    match rng.weighted(&[4, 3, 2]) {
        0 => ObsKind::None,
        1 => ObsKind::Record,
        _ => {
            let names = world.var_names();
            let f = match if big_model() { 0 } else { rng.below(3) } {
                0 => format!("AX {}", rng.pick(&names)),
                1 => "!{x}: AG EF {x}".to_string(),
                _ => format!("!{{y}}: EX ({} & ~{{y}})", rng.pick(&names)),
            };
            ObsKind::Reentrant { every: if big_model() { rng.range(20, 60) } else { rng.range(1, 7) }, formula: f }
        }
    }
}

pub fn random_mode(rng: &mut Rng, plain: bool) -> Mode {
    if plain {
        *rng.pick(&evalx::ALL_MODES)
    } else {
        *rng.pick(&[Mode::ExtDirty, Mode::ExtDirty, Mode::ExtSan, Mode::CliLoop])
    }
}

pub fn generate(rng: &Rng, world: &World) -> C04 {
    let mut r = rng.fork("c04.script");
    let mut cfg = gen_cfg(world, &mut r);
    // about a third of the batches are purely plain so that the plain / tree entry points run too
    let plain_batch = r.chance(1, 3) || cfg.labels.is_empty();
    if plain_batch {
        cfg.labels.clear();
        cfg.allow_wild = false;
    }
    let pool = Pool::generate(&mut r, &cfg);
    let g = Gen { cfg: &cfg, pool: &pool };
    let n = if big_model() { r.weighted(&[0, 3, 4, 2]) } else { r.weighted(&[0, 3, 4, 4, 3, 2, 1]) };
    let mut batch: Vec<F> = Vec::new();
    // a pair of formulae that use the same open fragment under quantifiers with the *same* domain
    // (duplicates whose key carries a domain), under different variable names and quantifiers
    if !cfg.labels.is_empty() && world.k >= 1 && n >= 2 && r.chance(1, 3) {
        let d = r.pick(&cfg.labels).clone();
        for _ in 0..2 {
            let v = *r.pick(&fgen::NAME_POOL);
            if let Some(frag) = pool.open_fragment(&mut r, v) {
                if frag.quant_depth() + 1 > world.k as usize {
                    continue;
                }
                let side = F::prop(r.pick(&cfg.props));
                let body = match r.below(3) {
                    0 => frag,
                    1 => F::bin(*r.pick(&["&", "|", "=>"]), frag, side),
                    _ => F::bin("&", side, F::un(*r.pick(&["~", "EX", "AG"]), frag)),
                };
                let f = match r.below(3) {
                    0 => F::hyb("!", v, Some(d.as_str()), body),
                    1 => F::hyb("3", v, Some(d.as_str()), F::hyb("@", v, None, body)),
                    _ => F::hyb("V", v, Some(d.as_str()), F::hyb("@", v, None, body)),
                };
                if f.is_closed() && f.well_scoped() {
                    batch.push(f);
                }
            }
        }
    }
    while batch.len() < n {
        let c = if batch.is_empty() { 0 } else { r.weighted(&[6, 2, 2]) };
        let f = match c {
            0 => g.formula(&mut r),
            1 => {
                // alpha-renamed copy of an earlier formula
                let src = r.pick(&batch).clone();
                fgen::alpha_rename(&mut r, &src)
            }
            _ => {
                // a closed sub-formula of an earlier formula as a formula of its own
                let src = r.pick(&batch).clone();
                let ps = fgen::closed_subformula_paths(&src, false);
                if ps.is_empty() { g.formula(&mut r) } else { src.at(r.pick(&ps).as_slice()).clone() }
            }
        };
        batch.push(f);
    }
    let plain = batch.iter().all(|f| f.is_plain());
    let mut hs = rng.fork("c04.hash");
    let mut variants = Vec::new();
    // 1: the batch as given
    variants.push(Variant {
        order: (0..n).collect(),
        mode: random_mode(&mut r, plain),
        obs: random_obs(&mut r, world),
        hash_seed: hs.next_u64(),
    });
    // 2: a permutation
    let mut perm: Vec<usize> = (0..n).collect();
    r.shuffle(&mut perm);
    variants.push(Variant { order: perm, mode: random_mode(&mut r, plain), obs: random_obs(&mut r, world), hash_seed: hs.next_u64() });
    // 3: with repetitions
    let mut rep: Vec<usize> = (0..n).collect();
    for _ in 0..r.range(1, 2) {
        let pos = r.below(rep.len() + 1);
        rep.insert(pos, r.below(n));
    }
    variants.push(Variant { order: rep, mode: random_mode(&mut r, plain), obs: random_obs(&mut r, world), hash_seed: hs.next_u64() });
    // 4: the same order as 1 under another hash seed, no observer ("repeated runs")
    variants.push(Variant { order: (0..n).collect(), mode: variants[0].mode, obs: ObsKind::None, hash_seed: hs.next_u64() });
    let prelude = if r.chance(1, 4) && !big_model() { Some(sibling_prelude(&mut r, world)) } else { None };
    C04 { batch, ref_hash_seed: hs.next_u64(), nocache_hash_seed: hs.next_u64(), variants, prelude }
}

/// Library-computed duplicate table of a list of formulae: used only to *measure* which
/// sharing histories were reached (never as an oracle).
pub fn duplicate_table(env: &Env, fs: &[F]) -> Vec<(String, i32)> {
    let mut trees = Vec::new();
    for f in fs {
        match parse_and_minimize_extended_formula(env.graph.symbolic_context(), &f.render()) {
            Ok(t) => trees.push(t),
            Err(_) => return Vec::new(),
        }
    }
    let ec = EvalContext::from_multiple_trees(&trees);
    let mut v: Vec<(String, i32)> = ec
        .duplicates
        .iter()
        .map(|((s, d), n)| (format!("{s} {d:?}"), *n))
        .collect();
    v.sort();
    v
}

/// Evaluate `batch` in every variant (order, entry point, observer, hash seed) and compare each
/// position with `refs` (raw sets over the graph's context). `oracles` names the violated clause
/// for (same order, permuted, repeated).
pub fn run_variants(env: &Env, batch: &[F], refs: &[Gcv], variants: &[Variant], rep: &mut Report, oracles: [&str; 3], what: &str) {
    run_variants_judged(env, batch, refs, variants, rep, oracles, what, &|_| true)
}

/// As [run_variants]; only positions holding a batch member `i` with `judge(i)` are compared.
#[allow(clippy::too_many_arguments)]
pub fn run_variants_judged(env: &Env, batch: &[F], refs: &[Gcv], variants: &[Variant], rep: &mut Report, oracles: [&str; 3], what: &str, judge: &dyn Fn(usize) -> bool) {
    let n = batch.len();
    for (vi, v) in variants.iter().enumerate() {
        if v.order.iter().any(|i| *i >= n) || v.order.is_empty() {
            continue;
        }
        let fs: Vec<F> = v.order.iter().map(|i| batch[*i].clone()).collect();
        if v.mode.plain_only() && fs.iter().any(|f| !f.is_plain()) {
            continue;
        }
        let mut obs_log = None;
        let r = isolated(v.hash_seed, || {
            let mut obs = Observer::new(v.obs.clone(), &env);
            let r = evalx::eval_batch(&env, &fs, v.mode, &mut obs);
            r.map(|x| (x, obs.log.clone()))
        });
        let ok = match r {
            Outcome::Ok((sets, log)) => {
                obs_log = Some(log);
                Outcome::Ok(sets)
            }
            Outcome::Err(e) => Outcome::Err(e),
            Outcome::Panic(p) => Outcome::Panic(p),
        };
        rep.event(format!(
            "variant {vi} {} {:?} {}",
            v.mode.name(),
            v.order,
            match &ok {
                Outcome::Ok(s) => s.iter().map(evalx::set_sig).collect::<Vec<_>>().join(","),
                o => o.describe(),
            }
        ));
        if let Some(l) = &obs_log {
            rep.event(format!("observer {vi} calls={} hash={:016x}", l.calls, l.hash));
            rep.probe("observer_calls", l.calls);
            rep.probe("observer_reentries", l.reentered);
            rep.probe("attractor_shortcuts", l.attractor_shortcuts);
            rep.probe("steady_shortcuts", l.steady_shortcuts);
            rep.probe("restricted_scopes_entered", l.restricted_scopes);
        }
        rep.probe(&format!("mode_{}", v.mode.name()), 1);
        let oracle = if v.order.len() != n {
            oracles[2]
        } else if v.order.iter().enumerate().any(|(a, b)| a != *b) {
            oracles[1]
        } else {
            oracles[0]
        };
        match ok {
            Outcome::Ok(sets) => {
                if sets.len() != fs.len() {
                    rep.violate(oracle, format!("variant {vi}: {} results for {} formulae", sets.len(), fs.len()));
                    continue;
                }
                for (j, s) in sets.iter().enumerate() {
                    if !judge(v.order[j]) {
                        continue;
                    }
                    let want = &refs[v.order[j]];
                    let equal = if v.mode.sanitised() {
                        // compare in the canonical encoding; if the reference itself cannot be
                        // sanitised that is not a history effect and is not judged here
                        match isolated(v.hash_seed ^ 0x55, || Ok(evalx::sanitise(&env, want))) {
                            Outcome::Ok(w) => evalx::same_set(s, &w),
                            _ => true,
                        }
                    } else {
                        evalx::same_set(s, want)
                    };
                    if !equal {
                        rep.violate(
                            oracle,
                            format!(
                                "variant {vi} ({}, order {:?}) position {j} `{}`: batch {} (batch vs {what})",
                                v.mode.name(),
                                v.order,
                                fs[j].render(),
                                evalx::describe_diff(&env, s, want)
                            ),
                        );
                    }
                }
            }
            Outcome::Err(e) => {
                rep.violate(oracle, format!("variant {vi} ({}): the reference evaluates every formula, the batch returned Err({e})", v.mode.name()));
            }
            Outcome::Panic(p) => {
                // a sanitising entry point that panics on a batch although every member can be
                // sanitised alone is history dependence; if a member cannot be sanitised alone
                // either, it is not judged here
                let mut alone_also = false;
                if v.mode.sanitised() {
                    for i in &v.order {
                        if !matches!(isolated(1, || Ok(evalx::sanitise(&env, &refs[*i]))), Outcome::Ok(_)) {
                            alone_also = true;
                        }
                    }
                }
                if !alone_also {
                    rep.violate(oracle, format!("variant {vi} ({}, order {:?}): the reference evaluates every formula, the batch panicked: {p}", v.mode.name(), v.order));
                }
            }
        }
    }
}

pub fn check(world: &World, sc: &C04) -> Report {
    let mut rep = Report::default();
    let env = match world.build() {
        Ok(e) => e,
        Err(e) => {
            rep.skipped = Some(format!("world does not build: {e}"));
            return rep;
        }
    };
    let n = sc.batch.len();
    // reference: sharing disabled (if even that fails, the formula is outside what C04 judges)
    let mut refs: Vec<Gcv> = Vec::new();
    for (i, f) in sc.batch.iter().enumerate() {
        let r = isolated(sc.nocache_hash_seed.wrapping_add(i as u64), || evalx::nocache(&env, f));
        rep.event(format!("nocache {i} {}", r.ok().map(evalx::set_sig).unwrap_or(r.describe())));
        match r {
            Outcome::Ok(s) => refs.push(s),
            other => {
                rep.skipped = Some(format!("reference evaluation of formula {i} failed: {}", other.describe()));
                return rep;
            }
        }
    }
    // from here on every evaluating thread first analyses the sibling network (if any)
    evalx::set_prelude(sc.prelude.clone());
    rep.probe("runs_with_prior_history_in_thread", sc.prelude.is_some() as u64);
    // alone (single-formula entry point; duplicates inside the formula are shared)
    for (i, f) in sc.batch.iter().enumerate() {
        let r = isolated(sc.ref_hash_seed.wrapping_add(i as u64), || evalx::alone(&env, f));
        rep.event(format!("alone {i} {}", r.ok().map(evalx::set_sig).unwrap_or(r.describe())));
        match r {
            Outcome::Ok(s) => {
                if !evalx::same_set(&s, &refs[i]) {
                    rep.violate(
                        "alone_vs_nocache",
                        format!("formula {i} `{}`: alone {} (alone vs sharing disabled)", f.render(), evalx::describe_diff(&env, &s, &refs[i])),
                    );
                }
            }
            other => {
                rep.violate("alone_vs_nocache", format!("formula {i} `{}`: sharing disabled ok, alone {}", f.render(), other.describe()));
            }
        }
    }
    // measure the sharing history (library's own duplicate table)
    let dup = duplicate_table(&env, &sc.batch);
    rep.probe("worlds_with_caller_restricted_colours", world.restrict.is_some() as u64);
    rep.probe("batches", 1);
    rep.probe("formulae", n as u64);
    rep.probe("duplicate_entries", dup.len() as u64);
    rep.probe("duplicate_hits_planned", dup.iter().map(|(_, c)| *c as u64).sum());
    rep.probe("duplicates_with_domain", dup.iter().filter(|(s, _)| s.contains("Some(")).count() as u64);
    // keys with a free variable are the ones whose hits may rename; `{}` = closed or wild-card keys
    rep.probe("duplicates_with_free_variable", dup.iter().filter(|(s, _)| !s.ends_with("{}")).count() as u64);
    rep.probe("duplicates_closed_with_quantifier", dup.iter().filter(|(s, _)| s.ends_with("{}") && s.contains("{var0}")).count() as u64);
    rep.probe("duplicates_wild_card", dup.iter().filter(|(s, _)| s.starts_with('%')).count() as u64);
    rep.probe("batches_with_restricted_scope", sc.batch.iter().any(|f| !{ let mut p = Default::default(); let mut d = std::collections::BTreeSet::new(); f.wild_labels(&mut p, &mut d); d.is_empty() }) as u64);
    run_variants(&env, &sc.batch, &refs, &sc.variants, &mut rep, ["batch_vs_alone", "permuted_batch_vs_alone", "repeated_batch_vs_alone"], "alone");
    evalx::set_prelude(None);
    if !dup.is_empty() {
        let mut sig = fnv1a(format!("{dup:?}").as_bytes());
        for v in &sc.variants {
            sig ^= fnv1a(format!("{:?}{}", v.order, v.mode.name()).as_bytes()).rotate_left(9);
        }
        rep.signature = Some(sig);
    }
    rep
}

/// One-step simplifications of a scenario (for the minimiser).
pub fn shrinks(sc: &C04) -> Vec<C04> {
    let mut out = Vec::new();
    if sc.prelude.is_some() {
        let mut s = sc.clone();
        s.prelude = None;
        out.push(s);
    }
    // keep a single variant
    if sc.variants.len() > 1 {
        for i in 0..sc.variants.len() {
            let mut s = sc.clone();
            s.variants = vec![sc.variants[i].clone()];
            out.push(s);
        }
    }
    // drop a formula
    if sc.batch.len() > 1 {
        for i in 0..sc.batch.len() {
            let mut s = sc.clone();
            s.batch.remove(i);
            for v in s.variants.iter_mut() {
                v.order = v.order.iter().filter(|x| **x != i).map(|x| if *x > i { *x - 1 } else { *x }).collect();
            }
            s.variants.retain(|v| !v.order.is_empty());
            if !s.variants.is_empty() || sc.variants.is_empty() {
                out.push(s);
            }
        }
    }
    // drop one position of an order
    for (vi, v) in sc.variants.iter().enumerate() {
        if v.order.len() > 1 {
            for j in 0..v.order.len() {
                let mut s = sc.clone();
                s.variants[vi].order.remove(j);
                out.push(s);
            }
        }
    }
    // simpler mode / observer / hash seed
    for (vi, v) in sc.variants.iter().enumerate() {
        if v.obs != ObsKind::None {
            let mut s = sc.clone();
            s.variants[vi].obs = ObsKind::None;
            out.push(s);
        }
        if v.mode != Mode::ExtDirty {
            let mut s = sc.clone();
            s.variants[vi].mode = Mode::ExtDirty;
            out.push(s);
        }
        if v.hash_seed != 0 {
            let mut s = sc.clone();
            s.variants[vi].hash_seed = 0;
            out.push(s);
        }
    }
    // shrink formulae
    for i in 0..sc.batch.len() {
        for g in sc.batch[i].shrinks() {
            let mut s = sc.clone();
            s.batch[i] = g;
            out.push(s);
        }
    }
    out
}
