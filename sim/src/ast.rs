//! The harness's own formula representation (independent of the library's tree type): used to
//! generate, rewrite (substitution, twins), shrink and print formulae. The library only ever sees
//! the rendered text (or trees it parsed itself from that text).

use serde_json::{Value, json};
use std::collections::BTreeSet;

#[derive(Clone, Debug, PartialEq, Eq, Hash)]
pub enum F {
    Const(bool),
    Prop(String),
    Var(String),
    Wild(String),
    Un(&'static str, Box<F>),
    Bin(&'static str, Box<F>, Box<F>),
    /// operator in {"!", "3", "V", "@"}, variable, optional domain label, body
    Hyb(&'static str, String, Option<String>, Box<F>),
}

pub const UNARY: [&str; 7] = ["~", "EX", "AX", "EF", "AF", "EG", "AG"];
pub const BINARY: [&str; 9] = ["&", "|", "^", "=>", "<=>", "EU", "AU", "EW", "AW"];
pub const HYBRID: [&str; 4] = ["!", "3", "V", "@"];

fn intern(op: &str) -> &'static str {
    for o in UNARY.iter().chain(BINARY.iter()).chain(HYBRID.iter()) {
        if *o == op {
            return o;
        }
    }
    panic!("unknown operator {op}");
}

impl F {
    pub fn un(op: &str, a: F) -> F {
        F::Un(intern(op), Box::new(a))
    }
    pub fn bin(op: &str, a: F, b: F) -> F {
        F::Bin(intern(op), Box::new(a), Box::new(b))
    }
    pub fn hyb(op: &str, v: &str, d: Option<&str>, a: F) -> F {
        F::Hyb(intern(op), v.to_string(), d.map(|s| s.to_string()), Box::new(a))
    }
    pub fn var<S: AsRef<str>>(v: S) -> F {
        F::Var(v.as_ref().to_string())
    }
    pub fn prop<S: AsRef<str>>(v: S) -> F {
        F::Prop(v.as_ref().to_string())
    }
    pub fn wild<S: AsRef<str>>(v: S) -> F {
        F::Wild(v.as_ref().to_string())
    }

    /// Fully parenthesised rendering in the syntax the library documents.
    pub fn render(&self) -> String {
        match self {
            F::Const(true) => "true".to_string(),
            F::Const(false) => "false".to_string(),
            F::Prop(p) => p.clone(),
            F::Var(v) => format!("{{{v}}}"),
            F::Wild(w) => format!("%{w}%"),
            F::Un(op, a) => {
                if *op == "~" {
                    format!("(~{})", a.render())
                } else {
                    format!("({} {})", op, a.render())
                }
            }
            F::Bin(op, a, b) => format!("({} {} {})", a.render(), op, b.render()),
            F::Hyb(op, v, d, a) => match d {
                Some(d) => format!("({op}{{{v}}} in %{d}%: {})", a.render()),
                None => format!("({op}{{{v}}}: {})", a.render()),
            },
        }
    }

    pub fn size(&self) -> usize {
        match self {
            F::Un(_, a) | F::Hyb(_, _, _, a) => 1 + a.size(),
            F::Bin(_, a, b) => 1 + a.size() + b.size(),
            _ => 1,
        }
    }

    /// Maximal nesting depth of quantifiers (= number of spare variable sets needed).
    pub fn quant_depth(&self) -> usize {
        match self {
            F::Un(_, a) => a.quant_depth(),
            F::Bin(_, a, b) => a.quant_depth().max(b.quant_depth()),
            F::Hyb(op, _, _, a) => (if *op == "@" { 0 } else { 1 }) + a.quant_depth(),
            _ => 0,
        }
    }

    pub fn free_vars(&self) -> BTreeSet<String> {
        let mut out = BTreeSet::new();
        self.free_vars_rec(&mut Vec::new(), &mut out);
        out
    }
    fn free_vars_rec(&self, bound: &mut Vec<String>, out: &mut BTreeSet<String>) {
        match self {
            F::Var(v) => {
                if !bound.contains(v) {
                    out.insert(v.clone());
                }
            }
            F::Un(_, a) => a.free_vars_rec(bound, out),
            F::Bin(_, a, b) => {
                a.free_vars_rec(bound, out);
                b.free_vars_rec(bound, out);
            }
            F::Hyb(op, v, _, a) => {
                if *op == "@" {
                    if !bound.contains(v) {
                        out.insert(v.clone());
                    }
                    a.free_vars_rec(bound, out);
                } else {
                    bound.push(v.clone());
                    a.free_vars_rec(bound, out);
                    bound.pop();
                }
            }
            _ => {}
        }
    }
    pub fn is_closed(&self) -> bool {
        self.free_vars().is_empty()
    }

    /// No variable is re-quantified inside its own scope (the library rejects that).
    pub fn well_scoped(&self) -> bool {
        fn rec(f: &F, bound: &mut Vec<String>) -> bool {
            match f {
                F::Un(_, a) => rec(a, bound),
                F::Bin(_, a, b) => rec(a, bound) && rec(b, bound),
                F::Hyb(op, v, _, a) => {
                    if *op == "@" {
                        return rec(a, bound);
                    }
                    if bound.contains(v) {
                        return false;
                    }
                    bound.push(v.clone());
                    let r = rec(a, bound);
                    bound.pop();
                    r
                }
                _ => true,
            }
        }
        rec(self, &mut Vec::new())
    }

    pub fn wild_labels(&self, props: &mut BTreeSet<String>, doms: &mut BTreeSet<String>) {
        match self {
            F::Wild(w) => {
                props.insert(w.clone());
            }
            F::Un(_, a) => a.wild_labels(props, doms),
            F::Bin(_, a, b) => {
                a.wild_labels(props, doms);
                b.wild_labels(props, doms);
            }
            F::Hyb(_, _, d, a) => {
                if let Some(d) = d {
                    doms.insert(d.clone());
                }
                a.wild_labels(props, doms);
            }
            _ => {}
        }
    }
    pub fn is_plain(&self) -> bool {
        let mut p = BTreeSet::new();
        let mut d = BTreeSet::new();
        self.wild_labels(&mut p, &mut d);
        p.is_empty() && d.is_empty()
    }
    pub fn count_wild(&self, label: &str) -> usize {
        match self {
            F::Wild(w) => (w == label) as usize,
            F::Un(_, a) | F::Hyb(_, _, _, a) => a.count_wild(label),
            F::Bin(_, a, b) => a.count_wild(label) + b.count_wild(label),
            _ => 0,
        }
    }

    /// All positions (paths of child indices) in pre-order.
    pub fn paths(&self) -> Vec<Vec<usize>> {
        let mut out = Vec::new();
        fn rec(f: &F, cur: &mut Vec<usize>, out: &mut Vec<Vec<usize>>) {
            out.push(cur.clone());
            match f {
                F::Un(_, a) | F::Hyb(_, _, _, a) => {
                    cur.push(0);
                    rec(a, cur, out);
                    cur.pop();
                }
                F::Bin(_, a, b) => {
                    cur.push(0);
                    rec(a, cur, out);
                    cur.pop();
                    cur.push(1);
                    rec(b, cur, out);
                    cur.pop();
                }
                _ => {}
            }
        }
        rec(self, &mut Vec::new(), &mut out);
        out
    }

    pub fn at(&self, path: &[usize]) -> &F {
        if path.is_empty() {
            return self;
        }
        match self {
            F::Un(_, a) | F::Hyb(_, _, _, a) => a.at(&path[1..]),
            F::Bin(_, a, b) => {
                if path[0] == 0 {
                    a.at(&path[1..])
                } else {
                    b.at(&path[1..])
                }
            }
            _ => panic!("bad path"),
        }
    }

    pub fn replace_at(&self, path: &[usize], new: &F) -> F {
        if path.is_empty() {
            return new.clone();
        }
        match self {
            F::Un(op, a) => F::Un(op, Box::new(a.replace_at(&path[1..], new))),
            F::Hyb(op, v, d, a) => F::Hyb(op, v.clone(), d.clone(), Box::new(a.replace_at(&path[1..], new))),
            F::Bin(op, a, b) => {
                if path[0] == 0 {
                    F::Bin(op, Box::new(a.replace_at(&path[1..], new)), b.clone())
                } else {
                    F::Bin(op, a.clone(), Box::new(b.replace_at(&path[1..], new)))
                }
            }
            _ => panic!("bad path"),
        }
    }

    /// Variables bound by quantifiers on the way from the root to `path` (outermost first),
    /// with their domain labels.
    pub fn scope_at(&self, path: &[usize]) -> Vec<(String, Option<String>)> {
        let mut out = Vec::new();
        let mut cur = self;
        for step in path {
            match cur {
                F::Un(_, a) => cur = a,
                F::Hyb(op, v, d, a) => {
                    if *op != "@" {
                        out.push((v.clone(), d.clone()));
                    }
                    cur = a;
                }
                F::Bin(_, a, b) => cur = if *step == 0 { a } else { b },
                _ => panic!("bad path"),
            }
        }
        out
    }

    /// Consistently rename a (bound or free) variable everywhere.
    pub fn rename_var(&self, from: &str, to: &str) -> F {
        match self {
            F::Var(v) if v == from => F::Var(to.to_string()),
            F::Un(op, a) => F::Un(op, Box::new(a.rename_var(from, to))),
            F::Bin(op, a, b) => F::Bin(op, Box::new(a.rename_var(from, to)), Box::new(b.rename_var(from, to))),
            F::Hyb(op, v, d, a) => F::Hyb(
                op,
                if v == from { to.to_string() } else { v.clone() },
                d.clone(),
                Box::new(a.rename_var(from, to)),
            ),
            _ => self.clone(),
        }
    }

    pub fn all_var_names(&self, out: &mut BTreeSet<String>) {
        match self {
            F::Var(v) => {
                out.insert(v.clone());
            }
            F::Un(_, a) => a.all_var_names(out),
            F::Bin(_, a, b) => {
                a.all_var_names(out);
                b.all_var_names(out);
            }
            F::Hyb(_, v, _, a) => {
                out.insert(v.clone());
                a.all_var_names(out);
            }
            _ => {}
        }
    }

    pub fn to_json(&self) -> Value {
        match self {
            F::Const(b) => json!(["c", b]),
            F::Prop(p) => json!(["p", p]),
            F::Var(v) => json!(["v", v]),
            F::Wild(w) => json!(["w", w]),
            F::Un(op, a) => json!(["u", op, a.to_json()]),
            F::Bin(op, a, b) => json!(["b", op, a.to_json(), b.to_json()]),
            F::Hyb(op, v, d, a) => json!(["h", op, v, d, a.to_json()]),
        }
    }

    pub fn from_json(v: &Value) -> Result<F, String> {
        let a = v.as_array().ok_or("formula: expected array")?;
        let tag = a.first().and_then(|t| t.as_str()).ok_or("formula: no tag")?;
        let s = |i: usize| -> Result<String, String> {
            a.get(i).and_then(|x| x.as_str()).map(|x| x.to_string()).ok_or(format!("formula: field {i}"))
        };
        Ok(match tag {
            "c" => F::Const(a.get(1).and_then(|x| x.as_bool()).ok_or("const")?),
            "p" => F::Prop(s(1)?),
            "v" => F::Var(s(1)?),
            "w" => F::Wild(s(1)?),
            "u" => F::un(&s(1)?, F::from_json(&a[2])?),
            "b" => F::bin(&s(1)?, F::from_json(&a[2])?, F::from_json(&a[3])?),
            "h" => {
                let d = a.get(3).and_then(|x| x.as_str()).map(|x| x.to_string());
                F::hyb(&s(1)?, &s(2)?, d.as_deref(), F::from_json(&a[4])?)
            }
            _ => return Err(format!("formula: unknown tag {tag}")),
        })
    }

    /// One-step simplifications used by the minimiser: replace a sub-tree by one of its children
    /// or by a constant; drop a domain. Only closed, well-scoped results are returned.
    pub fn shrinks(&self) -> Vec<F> {
        let mut out = Vec::new();
        for p in self.paths() {
            let sub = self.at(&p);
            let mut cands: Vec<F> = Vec::new();
            match sub {
                F::Un(_, a) => cands.push((**a).clone()),
                F::Bin(_, a, b) => {
                    cands.push((**a).clone());
                    cands.push((**b).clone());
                }
                F::Hyb(op, v, d, a) => {
                    cands.push((**a).clone());
                    if d.is_some() {
                        cands.push(F::Hyb(op, v.clone(), None, a.clone()));
                    }
                }
                _ => {}
            }
            if !matches!(sub, F::Const(_)) {
                cands.push(F::Const(true));
                cands.push(F::Const(false));
            }
            for c in cands {
                let g = self.replace_at(&p, &c);
                if g.is_closed() && g.well_scoped() && g != *self {
                    out.push(g);
                }
            }
        }
        out.sort_by_key(|f| f.size());
        out.dedup();
        out
    }
}
