fn main(){}
