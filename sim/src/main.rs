//! hctl-sim: deterministic simulation harness for biodivine-hctl-model-checker.
//!
//!   hctl-sim run    --prop P --seed S --worker W --workers N --max-runs M --time-ms T
//!                   --out FILE --replay-dir DIR --sandbox DIR --tier quick|thorough [--samples K]
//!   hctl-sim replay FILE [--sandbox DIR]
//!   hctl-sim gen    --prop P --seed S --index I
//!   hctl-sim cli ... (engine B, see cli.rs)
//!
//! Exit codes: 0 finished; 2 harness error. Verdicts are printed as JSON lines; the `check`
//! driver turns them into VIOLATION / KNOWN-FINDING lines and the process exit status.

mod ast;
mod c04;
mod c10;
mod c12;
mod c16;
mod c17;
mod case;
mod evalx;
mod exec;
mod fgen;
mod prng;
mod scen;
mod simenv;
mod world;

use case::Case;
use serde_json::{Value, json};
use std::collections::HashMap;
use std::io::Write;
use std::time::{Duration, Instant};

fn arg<'a>(args: &'a [String], name: &str) -> Option<&'a str> {
    args.iter().position(|a| a == name).and_then(|i| args.get(i + 1)).map(|s| s.as_str())
}
fn arg_u64(args: &[String], name: &str, dflt: u64) -> u64 {
    arg(args, name).and_then(|s| s.parse().ok()).unwrap_or(dflt)
}

pub const CLOCK_SCRIPT: &str = "1700000000000:7";

/// Fixed warm-up so that lazily initialised statics of the dependencies are identical in every
/// process (worker, replay) before the first simulated run.
fn warm_up() {
    let r = exec::isolated(0, || {
        let w = world::World {
            model: "a -> b\nb -| a\n$a: !b\n$b: a\n".to_string(),
            k: 1,
            context: Default::default(),
            restrict: None,
        };
        let env = w.build()?;
        let f = ast::F::hyb("!", "x", None, ast::F::un("AX", ast::F::var("x")));
        evalx::alone(&env, &f).map(|_| ())?;
        // every model format, an archive round trip, the extended parser
        let sbml = env.bn.to_sbml(None);
        biodivine_lib_param_bn::BooleanNetwork::try_from_sbml(&sbml).map(|_| ())?;
        let bnet = env.bn.to_bnet(true)?;
        biodivine_lib_param_bn::BooleanNetwork::try_from_bnet(&bnet).map(|_| ())?;
        let path = std::env::temp_dir().join(format!("hctl-sim-warm-{}.zip", std::process::id()));
        let p = path.to_string_lossy().to_string();
        let mut m = std::collections::HashMap::new();
        m.insert("w".to_string(), env.graph.mk_unit_colored_vertices());
        biodivine_hctl_model_checker::generate_output::build_result_archive(m, &p, &env.bn.to_string(), vec!["true".to_string()]).map_err(|e| e.to_string())?;
        let loaded = biodivine_hctl_model_checker::load_inputs::load_bdd_bundle(&p, env.graph.symbolic_context())?;
        let _ = std::fs::remove_file(&path);
        biodivine_hctl_model_checker::model_checking::model_check_extended_formula_dirty("3{x} in %w%: @{x}: (AX %w%)", &env.graph, &loaded).map(|_| ())
    });
    // The warm-up only exists to run the lazily initialised statics of the dependencies in every
    // process alike. If the tree under test misbehaves here, that is for the checks to report, not
    // a reason to refuse to run.
    if !matches!(r, exec::Outcome::Ok(())) {
        eprintln!("note: warm-up did not complete: {}", r.describe());
    }
}

fn run_case(case: &Case, hash_seed: u64, sandbox: &str) -> Result<scen::Report, String> {
    simenv::clock(CLOCK_SCRIPT);
    simenv::io(sandbox, "");
    let out = exec::isolated(hash_seed, || {
        // draw this thread's hash keys now, before any nested reseed
        let _m: HashMap<u8, u8> = HashMap::new();
        Ok(case.check(sandbox))
    });
    match out {
        exec::Outcome::Ok(r) => Ok(r),
        // a panic that escaped the per-evaluation isolation (library code called directly by the
        // check, e.g. while building the world): the run is not judged
        o => {
            let mut r = scen::Report::default();
            r.skipped = Some(format!("check did not complete: {}", o.describe()));
            r.probe("runs_not_completed_panic_outside_isolation", 1);
            Ok(r)
        }
    }
}

fn cmd_run(args: &[String]) -> i32 {
    let prop = arg(args, "--prop").expect("--prop").to_string();
    let seed = arg_u64(args, "--seed", 1);
    let worker = arg_u64(args, "--worker", 0);
    let workers = arg_u64(args, "--workers", 1).max(1);
    let max_runs = arg_u64(args, "--max-runs", 100);
    let time_ms = arg_u64(args, "--time-ms", 10_000);
    let samples = arg_u64(args, "--samples", 2);
    let tier = arg(args, "--tier").unwrap_or("quick").to_string();
    let out_path = arg(args, "--out").expect("--out");
    let replay_dir = arg(args, "--replay-dir").expect("--replay-dir").to_string();
    let sandbox = arg(args, "--sandbox").expect("--sandbox").to_string();
    let _ = std::fs::create_dir_all(&sandbox);
    let sandbox = std::fs::canonicalize(&sandbox).map(|p| p.to_string_lossy().to_string()).unwrap_or(sandbox);
    let min_budget = Duration::from_millis(arg_u64(args, "--minimise-ms", 60_000));
    let keep_going = args.iter().any(|a| a == "--keep-going");
    // open known findings (genuine defects recorded rather than repaired): a violation that matches
    // one is recorded as such and the worker goes on; anything else is a violation
    let known: Vec<Value> = arg(args, "--known")
        .and_then(|p| std::fs::read_to_string(p).ok())
        .and_then(|t| serde_json::from_str::<Value>(&t).ok())
        .and_then(|v| v["open"].as_array().cloned())
        .unwrap_or_default();
    let matches_known = |prop: &str, oracle: &str, detail: &str, case: &Case| -> Option<String> {
        let text = format!("{detail}\n{}", case.to_json());
        for e in &known {
            if e["property"].as_str() != Some(prop) {
                continue;
            }
            if let Some(o) = e["oracle"].as_str() {
                if o != oracle {
                    continue;
                }
            }
            let all = e["all_of"].as_array().map(|a| a.iter().all(|n| n.as_str().map(|n| text.contains(n)).unwrap_or(true))).unwrap_or(true);
            let none = e["none_of"].as_array().map(|a| a.iter().all(|n| n.as_str().map(|n| !text.contains(n)).unwrap_or(true))).unwrap_or(true);
            if all && none {
                return Some(e["id"].as_str().unwrap_or("?").to_string());
            }
        }
        None
    };
    // optional: every run uses this network (a bundled benchmark model) instead of a generated one
    let model_text: Option<String> = arg(args, "--model-file").map(|p| {
        let bn = biodivine_lib_param_bn::BooleanNetwork::try_from_file(p).unwrap_or_else(|e| {
            eprintln!("harness error: cannot read model {p}: {e}");
            std::process::exit(2)
        });
        c04::BIG_MODEL.store(true, std::sync::atomic::Ordering::Relaxed);
        bn.to_string()
    });
    let _ = std::fs::create_dir_all(&sandbox);
    let mut out = std::io::BufWriter::new(std::fs::File::create(out_path).expect("out file"));
    let start = Instant::now();
    // wall-clock cap per run: an evaluation cannot be interrupted, so a run that exceeds the cap ends
    // this worker (its remaining indices are simply not explored); the run is recorded as abandoned,
    // never as a verdict
    let run_cap_ms = arg_u64(args, "--run-cap-ms", 60_000);
    let current: std::sync::Arc<std::sync::atomic::AtomicU64> = std::sync::Arc::new(std::sync::atomic::AtomicU64::new(u64::MAX));
    let current_idx: std::sync::Arc<std::sync::atomic::AtomicU64> = std::sync::Arc::new(std::sync::atomic::AtomicU64::new(0));
    let cap_ms: std::sync::Arc<std::sync::atomic::AtomicU64> = std::sync::Arc::new(std::sync::atomic::AtomicU64::new(run_cap_ms));
    {
        let current = current.clone();
        let current_idx = current_idx.clone();
        let cap_ms = cap_ms.clone();
        let side = format!("{out_path}.abandoned");
        // memory cap per worker (resident set): symbolic computations on the bundled benchmark models
        // can need many GB, and sixteen workers doing so at once would meet the kernel's OOM killer;
        // like the wall-clock cap this ends the worker and records the run as abandoned, never as a verdict
        let mem_cap_kb = arg_u64(args, "--mem-cap-mb", 0) * 1024;
        std::thread::spawn(move || {
            let page_kb = (unsafe { libc::sysconf(libc::_SC_PAGESIZE) } as u64).max(1024) / 1024;
            let mut tick = 0u64;
            loop {
                std::thread::sleep(Duration::from_millis(50));
                tick += 1;
                if mem_cap_kb > 0 {
                    let rss_kb = std::fs::read_to_string("/proc/self/statm")
                        .ok()
                        .and_then(|t| t.split_whitespace().nth(1).and_then(|v| v.parse::<u64>().ok()))
                        .unwrap_or(0)
                        * page_kb;
                    if rss_kb > mem_cap_kb {
                        let _ = std::fs::write(&side, format!("{} memory\n", current_idx.load(std::sync::atomic::Ordering::Relaxed)));
                        unsafe { libc::_exit(0) };
                    }
                }
                if tick % 5 != 0 {
                    continue;
                }
                let began = current.load(std::sync::atomic::Ordering::Relaxed);
                if began != u64::MAX && (start.elapsed().as_millis() as u64).saturating_sub(began) > cap_ms.load(std::sync::atomic::Ordering::Relaxed) {
                    let _ = std::fs::write(&side, format!("{}\n", current_idx.load(std::sync::atomic::Ordering::Relaxed)));
                    unsafe { libc::_exit(0) };
                }
            }
        });
    }
    let mut done = 0u64;
    let mut idx = worker;
    while done < max_runs && start.elapsed() < Duration::from_millis(time_ms) {
        let rs = prng::run_seed(seed, idx);
        let case = Case::generate(&prop, rs, &tier, model_text.as_deref());
        let hash_seed = prng::Rng::new(rs).fork("run.hash").next_u64();
        let t0 = Instant::now();
        current_idx.store(idx, std::sync::atomic::Ordering::Relaxed);
        current.store(start.elapsed().as_millis() as u64, std::sync::atomic::Ordering::Relaxed);
        let rep = match run_case(&case, hash_seed, &sandbox) {
            Ok(r) => r,
            Err(e) => {
                let _ = writeln!(out, "{}", json!({"i": idx, "harness_error": e, "case": case.to_json()}));
                let _ = out.flush();
                return 2;
            }
        };
        // minimisation of a violation is bounded by its own budget, not by the run cap
        current.store(u64::MAX, std::sync::atomic::Ordering::Relaxed);
        let mut line = json!({"i": idx, "run_seed": rs, "hash_seed": hash_seed, "report": rep.to_json(), "ms": t0.elapsed().as_millis() as u64});
        if done < samples {
            line["sample"] = case.to_json();
        }
        if let Some(id) = rep.violation.as_ref().and_then(|v| matches_known(&prop, &v.oracle, &v.detail, &case)) {
            let v = rep.violation.clone().unwrap();
            line["known_finding"] = json!({"id": id, "oracle": v.oracle, "detail": v.detail});
            let _ = writeln!(out, "{line}");
            let _ = out.flush();
        } else if let Some(v) = &rep.violation {
            // 1. record the violation as found (explicit case, replayable) before anything else
            let _ = std::fs::create_dir_all(&replay_dir);
            let path = format!("{replay_dir}/{prop}-{seed}-{idx}.json");
            let write_replay = |c: &Case, r: &scen::Report, steps: usize| {
                let fv = r.violation.clone().unwrap();
                let file = json!({
                    "property": prop, "seed": seed, "index": idx, "hash_seed": hash_seed, "tier": tier,
                    "case": c.to_json(),
                    "expect": {"oracle": fv.oracle, "detail": fv.detail, "event_hash": format!("{:016x}", r.event_hash())},
                    "minimise_steps": steps,
                    "original_case": case.to_json(),
                });
                std::fs::write(&path, serde_json::to_string_pretty(&file).unwrap()).expect("write replay");
                json!({"oracle": fv.oracle, "detail": fv.detail, "replay": path, "case": c.to_json()})
            };
            let mut l1 = line.clone();
            l1["violation"] = write_replay(&case, &rep, 0);
            let _ = writeln!(out, "{l1}");
            let _ = out.flush();
            // 2. minimise (bounded: the watchdog ends the worker if this takes too long; the record
            //    written above then stands)
            cap_ms.store(min_budget.as_millis() as u64 + 2 * run_cap_ms, std::sync::atomic::Ordering::Relaxed);
            current.store(start.elapsed().as_millis() as u64, std::sync::atomic::Ordering::Relaxed);
            let start_case = match &rep.pinned {
                Some(p) => {
                    let mut j = case.to_json();
                    j["scenario"] = p.clone();
                    match Case::from_json(&j) {
                        Ok(c) if run_case(&c, hash_seed, &sandbox).ok().and_then(|r| r.violation).map(|x| x.oracle == v.oracle).unwrap_or(false) => c,
                        _ => case.clone(),
                    }
                }
                None => case.clone(),
            };
            let (small, steps) = case::minimise(&start_case, &v.oracle, &sandbox, min_budget);
            let rep2 = run_case(&small, hash_seed, &sandbox).unwrap_or_default();
            current.store(u64::MAX, std::sync::atomic::Ordering::Relaxed);
            cap_ms.store(run_cap_ms, std::sync::atomic::Ordering::Relaxed);
            if rep2.violation.as_ref().map(|x| &x.oracle) == Some(&v.oracle) && small != case {
                if std::env::var("VERIF_DEBUG_EVENTS").is_ok() {
                    for e in &rep2.events {
                        eprintln!("final event: {e}");
                    }
                }
                // 3. the minimised record replaces the first one (same run index: the later line wins)
                line["violation"] = write_replay(&small, &rep2, steps);
                let _ = writeln!(out, "{line}");
                let _ = out.flush();
            }
            if !keep_going {
                return 0;
            }
        } else {
            let _ = writeln!(out, "{line}");
            let _ = out.flush();
        }
        done += 1;
        idx += workers;
    }
    let _ = out.flush();
    0
}

fn cmd_replay(args: &[String]) -> i32 {
    let path = &args[0];
    let own_sandbox = arg(args, "--sandbox").is_none();
    let sandbox = arg(args, "--sandbox").map(|s| s.to_string()).unwrap_or_else(|| format!("/verif/.work/replay-{}", std::process::id()));
    let _ = std::fs::create_dir_all(&sandbox);
    let sandbox = std::fs::canonicalize(&sandbox).map(|p| p.to_string_lossy().to_string()).unwrap_or(sandbox);
    let text = match std::fs::read_to_string(path) {
        Ok(t) => t,
        Err(e) => {
            eprintln!("harness error: cannot read {path}: {e}");
            return 2;
        }
    };
    let v: Value = match serde_json::from_str(&text) {
        Ok(v) => v,
        Err(e) => {
            eprintln!("harness error: {path}: {e}");
            return 2;
        }
    };
    let case = match Case::from_json(&v["case"]) {
        Ok(c) => c,
        Err(e) => {
            eprintln!("harness error: {path}: {e}");
            return 2;
        }
    };
    let hash_seed = v["hash_seed"].as_u64().unwrap_or(0);
    let rep = match run_case(&case, hash_seed, &sandbox) {
        Ok(r) => r,
        Err(e) => {
            eprintln!("{e}");
            return 2;
        }
    };
    if own_sandbox {
        let _ = std::fs::remove_dir_all(&sandbox);
    }
    let eh = format!("{:016x}", rep.event_hash());
    if args.iter().any(|a| a == "--verbose") {
        for e in &rep.events {
            eprintln!("event: {e}");
        }
        eprintln!("probes: {:?}", rep.probes);
    }
    match &rep.violation {
        Some(viol) => {
            println!(
                "{}",
                json!({"replay": path, "reproduced": true, "oracle": viol.oracle, "detail": viol.detail, "event_hash": eh,
                       "same_oracle": v["expect"]["oracle"].as_str() == Some(viol.oracle.as_str()),
                       "same_event_hash": v["expect"]["event_hash"].as_str() == Some(eh.as_str())})
            );
            println!("VIOLATION property={} replay={}", case.property, path);
            1
        }
        None => {
            println!("{}", json!({"replay": path, "reproduced": false, "event_hash": eh, "skipped": rep.skipped}));
            0
        }
    }
}

fn cmd_gen(args: &[String]) -> i32 {
    let prop = arg(args, "--prop").expect("--prop");
    let seed = arg_u64(args, "--seed", 1);
    let index = arg_u64(args, "--index", 0);
    let tier = arg(args, "--tier").unwrap_or("quick");
    let case = Case::generate(prop, prng::run_seed(seed, index), tier, None);
    println!("{}", serde_json::to_string_pretty(&case.to_json()).unwrap());
    0
}

fn main() {
    let args: Vec<String> = std::env::args().skip(1).collect();
    if args.is_empty() {
        eprintln!("usage: hctl-sim run|replay|gen ...");
        std::process::exit(2);
    }
    if !simenv::active() {
        eprintln!("harness error: libsimenv.so is not loaded (LD_PRELOAD)");
        std::process::exit(2);
    }
    if args[0] == "save-child" {
        // crash child of engine A: hash keys, clock and fault plan come from the environment
        std::process::exit(c16::save_child_main(args.get(1).map(|s| s.as_str()).unwrap_or("")));
    }
    if args[0] == "load-child" {
        std::process::exit(c16::load_child_main(args.get(1).map(|s| s.as_str()).unwrap_or("")));
    }
    exec::install_panic_hook();
    warm_up();
    let code = match args[0].as_str() {
        "run" => cmd_run(&args[1..]),
        "replay" => cmd_replay(&args[1..]),
        "gen" => cmd_gen(&args[1..]),
        other => {
            eprintln!("unknown command {other}");
            2
        }
    };
    std::process::exit(code);
}
