//! C17 - the command-line tool computes the same sets as the library (engine B).
//!
//! One run = a sandbox directory with explicit input files (model in aeon/bnet/sbml, formula file
//! with comments / blank lines / whitespace / CRLF, optional context archive), the *real*
//! `hctl-model-checker` binary executed as a child process under the simulated OS boundary
//! (scripted wall clock, seeded hash keys, I/O fault plan over every file in the sandbox), and the
//! library API evaluated in the harness on the same inputs as the reference. Histories: a first
//! run killed inside a write whose torn archive is the next run's `-e`; a second run that consumes
//! the (relabelled) output of the first; a fault-free re-run after every faulty run.
//!
//! Oracles:
//!  1. no fault (or only benign ones: short transfers, any clock script, any hash seed): exit 0;
//!     one `Formula:` block per formula in file order; printed counts == approx_cardinality /
//!     colors / vertices of the library's raw result; exhaustive mode lists exactly the states of
//!     `vertices()`; with `-o` the archive holds formula-i == library result i, the formula list and
//!     a model that rebuilds the same symbolic context; with `-e` results are those of the library
//!     with the archived sets bound to the labels.
//!  2. unreadable inputs, invalid formulae, missing labels: exit 0, no panic, a message on stdout,
//!     no result block for the formula that cannot be evaluated.
//!  3. whatever faults fire: every block that *is* printed is correct and in file order, and an
//!     archive that is announced as written is correct.
//!  4. a torn context archive gives a message or the correct result.
//!  5. a fault-free re-run after a faulty run meets oracle 1.

use crate::ast::F;
use crate::c16::{SetSpec, build_set, context_names, read_entries};
use crate::evalx::{self, Gcv};
use crate::exec::{Outcome, isolated};
use crate::fgen::{Gen, Pool};
use crate::prng::{Rng, fnv1a};
use crate::scen::Report;
use crate::world::World;
use biodivine_hctl_model_checker::generate_output::build_result_archive;
use biodivine_hctl_model_checker::load_inputs::load_bdd_bundle;
use biodivine_hctl_model_checker::mc_utils::get_extended_symbolic_graph;
use biodivine_hctl_model_checker::model_checking as mc;
use biodivine_lib_param_bn::BooleanNetwork;
use biodivine_lib_param_bn::symbolic_async_graph::SymbolicAsyncGraph;
use serde_json::{Value, json};
use std::collections::{BTreeMap, HashMap};
use std::os::unix::process::ExitStatusExt;

#[derive(Clone, Debug, PartialEq)]
pub enum Fault {
    None,
    /// the path given for the model does not exist / is a directory / has an unknown extension /
    /// holds bytes that are not UTF-8 / holds text that is not a model
    Model(String),
    /// same for the formula file
    Formulas(String),
    /// formula line `line` (index into the list of formulae) is replaced by an invalid formula
    InvalidFormula { index: usize, text: String },
    /// a formula uses a wild-card / domain label that is not in the context archive
    MissingLabel { index: usize, text: String },
    /// the formulae use %..% but no -e is given
    WildWithoutContext,
    /// -e points to: nothing / a directory / bytes that are not a zip archive
    Context(String),
    /// the context archive is cut after `keep` bytes
    ContextTruncated { keep: u64 },
    /// one bit of the context archive is flipped
    ContextFlipped { bit: u64 },
}

#[derive(Clone, Debug, PartialEq)]
pub struct C17 {
    pub format: String,
    pub model_text: String,
    pub formula_file: String,
    pub print: String,
    /// path given to -o (relative to the run directory; "ABS:" prefix = absolute)
    pub out: Option<String>,
    /// context archive: label -> set
    pub ctx: Option<Vec<(String, SetSpec)>>,
    pub fault: Fault,
    pub clock: String,
    pub rand: u64,
    pub io_plan: String,
    /// a previous run with `-o` that was killed inside its kill_w-th write; its (torn) archive is
    /// given to this run as `-e`
    pub prior_crash: Option<(u64, u64)>,
    /// this run consumes the relabelled output of a first run over these formulae
    pub chained_from: Option<Vec<String>>,
    /// a previous run left a larger, valid archive at the `-o` path
    pub out_stale: bool,
    /// the context archive also holds entries in a sub-directory (`old/<label>.bdd`) with other sets
    pub ctx_decoys: bool,
    /// how the command line is spelled (0 = short options after the positionals; see `restyle`)
    pub arg_style: u64,
    /// output faults produced by the kernel itself rather than by the shim (a cross-check of the
    /// shim): "" | "fsize=N" (RLIMIT_FSIZE = N with SIGXFSZ ignored) | "outdir" (a directory at the
    /// output path)
    pub kernel_fault: String,
}

fn fault_to_json(f: &Fault) -> Value {
    match f {
        Fault::None => json!("none"),
        Fault::Model(k) => json!({"model": k}),
        Fault::Formulas(k) => json!({"formulas": k}),
        Fault::InvalidFormula { index, text } => json!({"invalid_formula": {"index": index, "text": text}}),
        Fault::MissingLabel { index, text } => json!({"missing_label": {"index": index, "text": text}}),
        Fault::WildWithoutContext => json!("wild_without_context"),
        Fault::Context(k) => json!({"context": k}),
        Fault::ContextTruncated { keep } => json!({"context_truncated": keep}),
        Fault::ContextFlipped { bit } => json!({"context_flipped": bit}),
    }
}
fn fault_from_json(v: &Value) -> Fault {
    if let Some(s) = v.as_str() {
        return if s == "wild_without_context" { Fault::WildWithoutContext } else { Fault::None };
    }
    if let Some(k) = v.get("model").and_then(|k| k.as_str()) {
        return Fault::Model(k.to_string());
    }
    if let Some(k) = v.get("formulas").and_then(|k| k.as_str()) {
        return Fault::Formulas(k.to_string());
    }
    if let Some(k) = v.get("context").and_then(|k| k.as_str()) {
        return Fault::Context(k.to_string());
    }
    if let Some(x) = v.get("invalid_formula") {
        return Fault::InvalidFormula { index: x["index"].as_u64().unwrap_or(0) as usize, text: x["text"].as_str().unwrap_or("").to_string() };
    }
    if let Some(x) = v.get("missing_label") {
        return Fault::MissingLabel { index: x["index"].as_u64().unwrap_or(0) as usize, text: x["text"].as_str().unwrap_or("").to_string() };
    }
    if let Some(k) = v.get("context_truncated").and_then(|k| k.as_u64()) {
        return Fault::ContextTruncated { keep: k };
    }
    if let Some(k) = v.get("context_flipped").and_then(|k| k.as_u64()) {
        return Fault::ContextFlipped { bit: k };
    }
    Fault::None
}

impl C17 {
    pub fn to_json(&self) -> Value {
        json!({
            "format": self.format, "model_text": self.model_text, "formula_file": self.formula_file,
            "print": self.print, "out": self.out,
            "ctx": self.ctx.as_ref().map(|c| c.iter().map(|(l, s)| json!([l, s.to_json()])).collect::<Vec<_>>()),
            "fault": fault_to_json(&self.fault), "clock": self.clock, "rand": self.rand, "io_plan": self.io_plan,
            "prior_crash": self.prior_crash.map(|(a, b)| json!([a, b])),
            "chained_from": self.chained_from,
            "out_stale": self.out_stale, "ctx_decoys": self.ctx_decoys, "arg_style": self.arg_style, "kernel_fault": self.kernel_fault,
        })
    }
    pub fn from_json(v: &Value) -> Result<C17, String> {
        let ctx = match v["ctx"].as_array() {
            Some(a) => {
                let mut out = Vec::new();
                for x in a {
                    out.push((x[0].as_str().ok_or("ctx label")?.to_string(), SetSpec::from_json(&x[1])?));
                }
                Some(out)
            }
            None => None,
        };
        Ok(C17 {
            format: v["format"].as_str().unwrap_or("aeon").to_string(),
            model_text: v["model_text"].as_str().ok_or("model_text")?.to_string(),
            formula_file: v["formula_file"].as_str().ok_or("formula_file")?.to_string(),
            print: v["print"].as_str().unwrap_or("summary").to_string(),
            out: v["out"].as_str().map(|s| s.to_string()),
            ctx,
            fault: fault_from_json(&v["fault"]),
            clock: v["clock"].as_str().unwrap_or("").to_string(),
            rand: v["rand"].as_u64().unwrap_or(0),
            io_plan: v["io_plan"].as_str().unwrap_or("").to_string(),
            prior_crash: v["prior_crash"].as_array().map(|a| (a[0].as_u64().unwrap_or(1), a[1].as_u64().unwrap_or(0))),
            chained_from: v["chained_from"].as_array().map(|a| a.iter().map(|s| s.as_str().unwrap_or("").to_string()).collect()),
            out_stale: v["out_stale"].as_bool().unwrap_or(false),
            ctx_decoys: v["ctx_decoys"].as_bool().unwrap_or(false),
            arg_style: v["arg_style"].as_u64().unwrap_or(0),
            kernel_fault: v["kernel_fault"].as_str().unwrap_or("").to_string(),
        })
    }
}

/// Equivalent spellings of the same command line. `args` is the canonical form
/// `[model, formulae, (-e X)?, (-o Y)?, -p Z]`.
pub fn restyle(args: &[String], style: u64) -> Vec<String> {
    if style == 0 || args.len() < 2 {
        return args.to_vec();
    }
    let pos: Vec<String> = args[..2].to_vec();
    let mut opts: Vec<(String, String)> = Vec::new();
    let mut i = 2;
    while i + 1 < args.len() {
        opts.push((args[i].clone(), args[i + 1].clone()));
        i += 2;
    }
    let long = |o: &str| match o {
        "-e" => "--extended-context",
        "-o" => "--output-bundle",
        _ => "--print-option",
    };
    let mut out: Vec<String> = Vec::new();
    match style {
        1 => {
            out.extend(pos);
            for (o, v) in &opts {
                out.push(long(o).to_string());
                out.push(v.clone());
            }
        }
        2 => {
            out.extend(pos);
            for (o, v) in &opts {
                out.push(format!("{}={}", long(o), v));
            }
        }
        3 => {
            for (o, v) in opts.iter().rev() {
                out.push(o.clone());
                out.push(v.clone());
            }
            out.extend(pos);
        }
        4 => {
            out.push(pos[0].clone());
            for (o, v) in &opts {
                out.push(format!("{o}{v}"));
            }
            out.push(pos[1].clone());
        }
        5 => {
            for p in &pos {
                out.push(if p.starts_with('/') { p.clone() } else { format!("./{p}") });
            }
            for (o, v) in &opts {
                out.push(o.clone());
                out.push(v.clone());
            }
        }
        _ => {
            // the default print option left out
            out.extend(pos);
            for (o, v) in &opts {
                if o == "-p" && v == "summary" {
                    continue;
                }
                out.push(o.clone());
                out.push(v.clone());
            }
        }
    }
    out
}

/// The documented rule for formula files: one formula per line, surrounding whitespace is
/// insignificant, blank lines and lines starting with `#` are ignored.
pub fn formulas_of_file(text: &str) -> Vec<String> {
    text.lines().map(|l| l.trim()).filter(|l| !l.is_empty() && !l.starts_with('#')).map(|l| l.to_string()).collect()
}

fn layout(rng: &mut Rng, formulas: &[String]) -> String {
    let style = rng.weighted(&[3, 5]);
    if style == 0 {
        return formulas.iter().map(|f| format!("{f}\n")).collect();
    }
    let crlf = rng.chance(1, 4);
    let nl = if crlf { "\r\n" } else { "\n" };
    let ws = |rng: &mut Rng| -> String {
        let n = rng.weighted(&[4, 2, 1, 1]);
        (0..n).map(|_| if rng.chance(1, 3) { '\t' } else { ' ' }).collect()
    };
    let mut out = String::new();
    let junk = |rng: &mut Rng, out: &mut String| {
        for _ in 0..rng.weighted(&[4, 3, 2, 1]) {
            match rng.below(5) {
                0 => out.push_str(&format!("# comment {}{nl}", rng.below(100))),
                1 => out.push_str(nl),
                2 => out.push_str(&format!("{}{nl}", ws(rng))),
                3 => out.push_str(&format!("{}# indented comment AX a & %p%{nl}", ws(rng))),
                _ => out.push_str(&format!("#{nl}")),
            }
        }
    };
    junk(rng, &mut out);
    for (i, f) in formulas.iter().enumerate() {
        out.push_str(&ws(rng));
        out.push_str(f);
        out.push_str(&ws(rng));
        if i + 1 < formulas.len() || rng.chance(3, 4) {
            out.push_str(nl);
        }
        if i + 1 < formulas.len() || out.ends_with('\n') {
            junk(rng, &mut out);
        }
    }
    out
}

fn random_clock(rng: &mut Rng) -> String {
    let base: i64 = *rng.pick(&[1_700_000_000_000i64, 0, 1_000, 4_354_819_200_000, 315_532_800_000, 951_782_400_000]);
    let n = rng.range(1, 24);
    let mut ds = Vec::new();
    for _ in 0..n {
        let d: i64 = match rng.weighted(&[8, 2, 2, 2, 1]) {
            0 => rng.range(0, 20) as i64,
            1 => 0,
            2 => rng.range(1000, 90_000_000) as i64,
            3 => -(rng.range(1, 5000) as i64),
            _ => -(rng.range(100_000, 100_000_000) as i64),
        };
        ds.push(d.to_string());
    }
    format!("{base}:{}", ds.join(","))
}

fn steady_clock() -> String {
    "1700000000000:3".to_string()
}

pub fn generate(rng: &Rng, world: &World, tier: &str) -> C17 {
    let _ = tier;
    let mut r = rng.fork("c17.script");
    let bn0 = BooleanNetwork::try_from(world.model.as_str()).expect("world model");
    // model file in one of the formats
    let (format, model_text) = match r.weighted(&[5, 3, 2]) {
        1 => {
            // every fifth sbml model has a species without any transition
            let t = bn0.to_sbml(None);
            ("sbml".to_string(), if r.chance(1, 5) { crate::c16::inject_isolated_species(&t, "iso_v") } else { t })
        }
        2 => match bn0.to_bnet(true) {
            Ok(t) if BooleanNetwork::try_from_bnet(&t).is_ok() => ("bnet".to_string(), t),
            _ => ("aeon".to_string(), world.model.clone()),
        },
        _ => ("aeon".to_string(), if r.chance(1, 2) { world.model.clone() } else { bn0.to_string() }),
    };
    let props = world.var_names();
    let with_ctx = r.chance(2, 5);
    let mut ctx: Option<Vec<(String, SetSpec)>> = None;
    let mut labels: Vec<String> = Vec::new();
    if with_ctx {
        let mut ls: Vec<&str> = crate::world::LABEL_POOL.to_vec();
        r.shuffle(&mut ls);
        let mut v = Vec::new();
        for l in ls.into_iter().take(r.range(1, 3)) {
            let spec = match r.weighted(&[1, 1, 5, 3]) {
                0 => SetSpec::Empty,
                1 => SetSpec::Unit,
                2 => SetSpec::Dnf(r.next_u64() % 1_000_000),
                _ => SetSpec::ResultOf(F::un(*r.pick(&["AX", "EF", "~", "AG"]), F::prop(r.pick(&props)))),
            };
            labels.push(l.to_string());
            v.push((l.to_string(), spec));
        }
        if crate::c04::big_model() && r.chance(1, 2) {
            // a context set whose text form exceeds the buffers of the compression layer
            let l = "big_ctx".to_string();
            labels.push(l.clone());
            v.push((l, SetSpec::Large(r.next_u64() % 1_000_000, 1_000_000 + 131072 * r.range(1, 2) as u64 - r.range(0, 6000) as u64)));
        }
        ctx = Some(v);
    }
    let mut w2 = world.clone();
    w2.context.clear();
    let mut cfg = crate::c04::gen_cfg(&w2, &mut r);
    cfg.labels = labels.clone();
    cfg.allow_wild = with_ctx;
    cfg.max_depth = r.range(0, 3);
    cfg.max_size = r.range(3, 14);
    let pool = Pool::generate(&mut r, &cfg);
    let g = Gen { cfg: &cfg, pool: &pool };
    let n = r.weighted(&[1, 4, 4, 3, 2, 1, 1]);
    let mut formulas: Vec<String> = Vec::new();
    for _ in 0..n {
        let f = g.formula(&mut r);
        // the CLI prints the text as given: vary the spelling a little (C17 is about file order and
        // equality with the library on the same text, not about the parser)
        let text = f.render();
        formulas.push(if r.chance(1, 3) && text.starts_with('(') && text.ends_with(')') { text[1..text.len() - 1].to_string() } else { text });
    }
    // the same formula may occur several times in a file (literally, or up to variable names)
    if !formulas.is_empty() && r.chance(1, 3) {
        for _ in 0..r.range(1, 2) {
            let src = r.pick(&formulas).clone();
            let copy = if r.chance(1, 2) {
                src
            } else {
                let mut t = src.clone();
                for (a, b) in [("{x}", "{x_}"), ("{y}", "{x}"), ("{x_}", "{y}"), ("{z}", "{zz9}")] {
                    t = t.replace(a, b);
                }
                t
            };
            let pos = r.below(formulas.len() + 1);
            formulas.insert(pos, copy);
        }
    }
    let print = r.pick(&["no-print", "summary", "summary", "with-progress", "exhaustive"]).to_string();
    let out = match r.weighted(&[4, 3, 2, 1]) {
        0 => None,
        1 => Some("results.zip".to_string()),
        2 => Some("new/nested dir/out.zip".to_string()),
        _ => Some("ABS:abs-out.zip".to_string()),
    };
    // updating a bundle in place: the context archive is also the output path
    let out = if with_ctx && out.is_some() && r.chance(1, 4) { Some("context.zip".to_string()) } else { out };
    let mut fault = Fault::None;
    let mut io_plan = String::new();
    let mut clock = if r.chance(1, 2) { steady_clock() } else { random_clock(&mut r) };
    let mut prior_crash = None;
    let mut chained_from = None;
    match r.weighted(&[8, 6, 5, 3, 2, 2]) {
        0 => {
            // benign environment only
            if r.chance(1, 2) {
                io_plan = match r.below(3) {
                    0 => format!("shortr={}", r.range(1, 64)),
                    1 => format!("shortw={}", r.range(1, 64)),
                    _ => format!("shortr={},shortw={}", r.range(1, 16), r.range(1, 16)),
                };
            }
        }
        1 => {
            // an input fault named by the property
            fault = match r.below(9) {
                0 => Fault::Model(r.pick(&["missing", "directory", "unknown_extension", "not_utf8", "garbage"]).to_string()),
                1 => Fault::Formulas(r.pick(&["missing", "directory", "not_utf8"]).to_string()),
                2 | 3 | 4 if !formulas.is_empty() => {
                    let bad = [
                        "AX", "(AX a", "a &", "!{x}: AX {y}", "!{x}: !{x}: AX {x}", "AX no_such_variable_", "3{x}: @{y}: a", "a b", "{x}", "AX (a & )", "%%", "!{x} in : AX {x}",
                        "\\unknown {x}: a", "a => => b", "EX EX", "~", "@{x}: a", "V{x}:", "true # a comment must start its line", "(true | false) #",
                    ];
                    Fault::InvalidFormula { index: r.below(formulas.len()), text: r.pick(&bad).to_string() }
                }
                5 if with_ctx && !formulas.is_empty() => Fault::MissingLabel {
                    index: r.below(formulas.len()),
                    text: if r.chance(1, 2) { "AX %not_in_archive%".to_string() } else { "3{x} in %not_in_archive%: @{x}: AX {x}".to_string() },
                },
                6 if !with_ctx && !formulas.is_empty() => Fault::WildWithoutContext,
                7 if with_ctx => Fault::Context(r.pick(&["missing", "directory", "garbage", "empty"]).to_string()),
                _ => Fault::Model("missing".to_string()),
            };
        }
        2 => {
            // I/O errors on any of the files in the sandbox
            io_plan = match r.below(9) {
                0 => format!("eio_r={}", r.range(1, 12)),
                1 => format!("open_err={}:{}", r.range(1, 4), r.pick(&[2, 13, 24, 5, 23])),
                2 => format!("eio_w={}", r.range(1, 60)),
                3 => format!("enospc={}", r.range(0, 1200)),
                4 => format!("efbig={}", r.range(0, 1200)),
                5 => format!("eio_seek={}", r.range(1, 14)),
                6 => "eio_close=1".to_string(),
                7 => format!("eintr={}", r.range(1, 4)),
                _ => format!("shortw={},eio_w={}", r.range(1, 9), r.range(1, 200)),
            };
        }
        3 if with_ctx => {
            fault = if r.chance(2, 3) { Fault::ContextTruncated { keep: r.range(0, 1500) as u64 } } else { Fault::ContextFlipped { bit: r.range(0, 12000) as u64 } };
        }
        4 => {
            prior_crash = Some((r.range(1, 60) as u64, r.range(0, 30) as u64));
        }
        5 if with_ctx => {
            // this run consumes the relabelled output of a first run
            let m = r.range(1, 3);
            let mut first = Vec::new();
            for _ in 0..m {
                let mut c2 = cfg.clone();
                c2.labels.clear();
                c2.allow_wild = false;
                let p2 = Pool::generate(&mut r, &c2);
                let g2 = Gen { cfg: &c2, pool: &p2 };
                first.push(g2.formula(&mut r).render());
            }
            chained_from = Some(first);
        }
        _ => {
            clock = random_clock(&mut r);
        }
    }
    // assemble the formula file (explicit text)
    let mut lines = formulas.clone();
    match &fault {
        Fault::InvalidFormula { index, text } | Fault::MissingLabel { index, text } => {
            if *index < lines.len() {
                lines[*index] = text.clone();
            }
        }
        Fault::WildWithoutContext => {
            let i = r.below(lines.len());
            lines[i] = format!("({}) & %p%", lines[i]);
        }
        _ => {}
    }
    let formula_file = layout(&mut r, &lines);
    let out_stale = out.is_some() && out.as_deref() != Some("context.zip") && r.chance(1, 4);
    let ctx_decoys = with_ctx && r.chance(1, 3);
    let arg_style = r.weighted(&[6, 2, 2, 2, 2, 1, 1]) as u64;
    let kernel_fault = if out.is_some() && out.as_deref() != Some("context.zip") && fault == Fault::None && io_plan.is_empty() && prior_crash.is_none() && r.chance(1, 8) {
        // (no real device such as /dev/full is ever handed to the tool: the checks run as root, and a
        // tree under test that unlinks its output path on error would delete the device node)
        match r.below(4) {
            0 => "fsize=0".to_string(),
            1 => "outdir".to_string(),
            _ => format!("fsize={}", r.range(0, 1500)),
        }
    } else {
        String::new()
    };
    C17 { format, model_text, formula_file, print, out, ctx, fault, clock, rand: r.next_u64(), io_plan, prior_crash, chained_from, out_stale, ctx_decoys, arg_style, kernel_fault }
}

// ---------------------------------------------------------------------------------------------

#[derive(Debug, Clone)]
struct Block {
    formula: String,
    results: String,
    colors: String,
    states: String,
    listed: Vec<String>,
}

struct CliOut {
    code: Option<i32>,
    signal: Option<i32>,
    stdout: String,
    stderr: String,
    counters: Vec<u64>,
}

fn strip_ansi(s: &str) -> String {
    let mut out = String::new();
    let mut it = s.chars().peekable();
    while let Some(c) = it.next() {
        if c == '\u{1b}' {
            if it.peek() == Some(&'[') {
                it.next();
                for d in it.by_ref() {
                    if d.is_ascii_alphabetic() {
                        break;
                    }
                }
            }
        } else {
            out.push(c);
        }
    }
    out
}

fn parse_blocks(stdout: &str, exhaustive: bool) -> Result<Vec<Block>, String> {
    let text = strip_ansi(stdout);
    let lines: Vec<&str> = text.lines().collect();
    let mut blocks = Vec::new();
    let mut i = 0;
    while i < lines.len() {
        if let Some(f) = lines[i].strip_prefix("Formula: ") {
            if i + 5 > lines.len() {
                return Err(format!("truncated block for `{f}`"));
            }
            let get = |line: &str, suffix: &str| -> Result<String, String> {
                line.strip_suffix(suffix).map(|s| s.to_string()).ok_or(format!("unexpected line `{line}` in block of `{f}`"))
            };
            if !lines[i + 1].starts_with("Time to model check: ") {
                return Err(format!("unexpected line `{}` in block of `{f}`", lines[i + 1]));
            }
            let results = get(lines[i + 2], " results in total")?;
            let colors = get(lines[i + 3], " unique colors")?;
            let states = get(lines[i + 4], " unique states")?;
            let mut j = i + 5;
            if lines.get(j) != Some(&"-----") {
                return Err(format!("block of `{f}` not terminated"));
            }
            j += 1;
            let mut listed = Vec::new();
            if exhaustive {
                while j < lines.len() && lines[j] != "-----" {
                    listed.push(lines[j].to_string());
                    j += 1;
                }
                if j >= lines.len() {
                    return Err(format!("state list of `{f}` not terminated"));
                }
                j += 1;
            }
            blocks.push(Block { formula: f.to_string(), results, colors, states, listed });
            i = j;
        } else {
            i += 1;
        }
    }
    Ok(blocks)
}

struct RunDir {
    dir: String,
    log: String,
}

fn run_cli(rd: &RunDir, args: &[String], clock: &str, rand: u64, plan: &str) -> Result<CliOut, String> {
    run_cli_limited(rd, args, clock, rand, plan, None)
}

/// `fsize`: the kernel's own file-size limit for the child (RLIMIT_FSIZE, SIGXFSZ ignored, so that a
/// write beyond the limit is cut short and the next one fails with EFBIG).
fn run_cli_limited(rd: &RunDir, args: &[String], clock: &str, rand: u64, plan: &str, fsize: Option<u64>) -> Result<CliOut, String> {
    use std::os::unix::process::CommandExt;
    let bin = std::env::var("VERIF_CLI_BIN").unwrap_or_else(|_| "/verif/target/repo/release/hctl-model-checker".to_string());
    let _ = std::fs::remove_file(&rd.log);
    let mut cmd = std::process::Command::new(&bin);
    if let Some(n) = fsize {
        unsafe {
            cmd.pre_exec(move || {
                libc::signal(libc::SIGXFSZ, libc::SIG_IGN);
                let lim = libc::rlimit { rlim_cur: n, rlim_max: n };
                libc::setrlimit(libc::RLIMIT_FSIZE, &lim);
                Ok(())
            });
        }
    }
    let out = cmd
        .args(args)
        .current_dir(&rd.dir)
        .env("VERIF_RAND", rand.to_string())
        .env("VERIF_CLOCK", clock)
        .env("VERIF_IO_PREFIX", &rd.dir)
        .env("VERIF_IO_PLAN", plan)
        .env("VERIF_IO_LOG", &rd.log)
        .env_remove("RUST_BACKTRACE")
        .output()
        .map_err(|e| format!("cannot run {bin}: {e}"))?;
    let mut counters = vec![0u64; crate::simenv::COUNTER_NAMES.len()];
    if let Ok(t) = std::fs::read_to_string(&rd.log) {
        for l in t.lines() {
            if let Some(rest) = l.strip_prefix("counter ") {
                let mut it = rest.split(' ');
                if let (Some(i), Some(n)) = (it.next().and_then(|x| x.parse::<usize>().ok()), it.next().and_then(|x| x.parse::<u64>().ok())) {
                    if i < counters.len() {
                        counters[i] = n;
                    }
                }
            }
        }
    }
    Ok(CliOut {
        code: out.status.code(),
        signal: out.status.signal(),
        stdout: String::from_utf8_lossy(&out.stdout).to_string(),
        stderr: String::from_utf8_lossy(&out.stderr).to_string(),
        counters,
    })
}

fn fired(c: &[u64]) -> Vec<(String, u64)> {
    crate::simenv::COUNTER_NAMES
        .iter()
        .enumerate()
        .filter(|(i, n)| n.starts_with("fault_") && c[*i] > 0)
        .map(|(i, n)| (n.to_string(), c[i]))
        .collect()
}

/// Library reference for a list of formulae.
struct Reference {
    graph: SymbolicAsyncGraph,
    results: Vec<Gcv>,
}

fn parse_model(format: &str, text: &str) -> Result<BooleanNetwork, String> {
    match format {
        "sbml" => BooleanNetwork::try_from_sbml(text).map(|x| x.0),
        "bnet" => BooleanNetwork::try_from_bnet(text),
        _ => BooleanNetwork::try_from(text),
    }
}

fn quant_depth_of_text(f: &str, extended: bool) -> usize {
    // nesting depth as the tool computes it: number of distinct variables after renaming
    use biodivine_hctl_model_checker::preprocessing::parser::{parse_extended_formula, parse_hctl_formula};
    let t = if extended { parse_extended_formula(f) } else { parse_hctl_formula(f) };
    fn depth(n: &biodivine_hctl_model_checker::preprocessing::hctl_tree::HctlTreeNode) -> usize {
        use biodivine_hctl_model_checker::preprocessing::hctl_tree::NodeType;
        use biodivine_hctl_model_checker::preprocessing::operator_enums::HybridOp;
        match &n.node_type {
            NodeType::Terminal(_) => 0,
            NodeType::Unary(_, c) => depth(c),
            NodeType::Binary(_, a, b) => depth(a).max(depth(b)),
            NodeType::Hybrid(op, _, _, c) => (if matches!(op, HybridOp::Jump) { 0 } else { 1 }) + depth(c),
        }
    }
    t.map(|t| depth(&t)).unwrap_or(0)
}

fn reference(bn: &BooleanNetwork, formulas: &[String], ctx_specs: Option<&Vec<(String, SetSpec)>>, extra_ctx: Option<&HashMap<String, Gcv>>) -> Result<(Reference, HashMap<String, Gcv>), String> {
    let extended = ctx_specs.is_some() || extra_ctx.is_some();
    let k = formulas.iter().map(|f| quant_depth_of_text(f, extended)).max().unwrap_or(0) as u16;
    let graph = get_extended_symbolic_graph(bn, k)?;
    let mut ctx: HashMap<String, Gcv> = HashMap::new();
    if let Some(specs) = ctx_specs {
        for (l, s) in specs {
            ctx.insert(l.clone(), build_set(&graph, s)?);
        }
    }
    if let Some(extra) = extra_ctx {
        for (l, s) in extra {
            // sets of closed formulae do not depend on spare variables: move them to this context
            let moved = graph
                .symbolic_context()
                .transfer_from(s.as_bdd(), &biodivine_lib_param_bn::symbolic_async_graph::SymbolicContext::new(bn)?)
                .ok_or("transfer")?;
            ctx.insert(l.clone(), Gcv::new(moved, graph.symbolic_context()));
        }
    }
    let fr: Vec<&str> = formulas.iter().map(|s| s.as_str()).collect();
    let results = if extended { mc::model_check_multiple_extended_formulae_dirty(fr, &graph, &ctx)? } else { mc::model_check_multiple_formulae_dirty(fr, &graph)? };
    Ok((Reference { graph, results }, ctx))
}

fn state_lines(reference: &Reference, set: &Gcv) -> Vec<String> {
    let names: Vec<String> = reference.graph.variables().map(|v| reference.graph.get_variable_name(v)).collect();
    let mut out = Vec::new();
    for val in set.vertices().materialize().iter() {
        use biodivine_lib_param_bn::biodivine_std::bitvector::BitVector;
        let mut s = String::new();
        for (i, n) in names.iter().enumerate() {
            if val.get(i) {
                s.push_str(&format!("{n} & "));
            } else {
                s.push_str(&format!("~{n} & "));
            }
        }
        out.push(s);
    }
    out.sort();
    out
}

/// Blocks that are printed must be correct and in file order. Returns the number of correct blocks.
fn judge_blocks(blocks: &[Block], expected: &[String], reference: &Reference, exhaustive: bool, rep: &mut Report, how: &str) -> usize {
    if blocks.len() > expected.len() {
        rep.violate("printed_results_differ", format!("{how}: {} result blocks for {} formulae", blocks.len(), expected.len()));
        return 0;
    }
    for (i, b) in blocks.iter().enumerate() {
        if b.formula != expected[i] {
            rep.violate("file_order", format!("{how}: block {i} is for `{}`, line {i} of the file is `{}`", b.formula, expected[i]));
            return i;
        }
        let r = &reference.results[i];
        let want = (format!("{}", r.approx_cardinality()), format!("{}", r.colors().approx_cardinality()), format!("{}", r.vertices().approx_cardinality()));
        if (b.results.clone(), b.colors.clone(), b.states.clone()) != want {
            rep.violate(
                "printed_results_differ",
                format!("{how}: `{}`: printed {}/{}/{} results/colours/states, library {}/{}/{}", b.formula, b.results, b.colors, b.states, want.0, want.1, want.2),
            );
            return i;
        }
        if exhaustive {
            let mut got = b.listed.clone();
            got.sort();
            let want = state_lines(reference, r);
            if got != want {
                rep.violate("listed_states_differ", format!("{how}: `{}`: {} states listed, library has {}; first listed {:?}, first expected {:?}", b.formula, got.len(), want.len(), got.first(), want.first()));
                return i;
            }
        }
    }
    blocks.len()
}

fn judge_archive(path: &str, expected: &[String], reference: &Reference, rep: &mut Report, how: &str) {
    let entries = match read_entries(path) {
        Ok(e) => e,
        Err(e) => {
            rep.violate("archive_differs", format!("{how}: the archive {path} cannot be read back: {e}"));
            return;
        }
    };
    let mut want: Vec<String> = (0..expected.len()).map(|i| format!("formula-{i}.bdd")).collect();
    want.push("model.aeon".to_string());
    want.push("formulae.txt".to_string());
    want.sort();
    // additional entries that the loader ignores (not `.bdd`) are not a difference
    let all: Vec<String> = entries.keys().cloned().collect();
    let got: Vec<String> = all.iter().filter(|n| n.ends_with(".bdd") || want.contains(*n)).cloned().collect();
    if got != want {
        rep.violate("archive_differs", format!("{how}: entries {all:?}, expected {want:?}"));
        return;
    }
    let ftxt = String::from_utf8_lossy(&entries["formulae.txt"]).to_string();
    let lines: Vec<String> = ftxt.lines().map(|s| s.to_string()).collect();
    if lines != expected {
        rep.violate("archive_differs", format!("{how}: archived formula list {lines:?}, formulae of the file {expected:?}"));
        return;
    }
    let model = String::from_utf8_lossy(&entries["model.aeon"]).to_string();
    let k = reference.graph.symbolic_context().num_extra_state_variables() / reference.graph.num_vars().max(1);
    let g2 = match BooleanNetwork::try_from(model.as_str()).and_then(|b| get_extended_symbolic_graph(&b, k as u16)) {
        Ok(g) => g,
        Err(e) => {
            rep.violate("archive_differs", format!("{how}: archived model does not rebuild: {e}"));
            return;
        }
    };
    if context_names(&g2) != context_names(&reference.graph) {
        let lost = context_names(&reference.graph).iter().any(|n| n == "iso_v") && !context_names(&g2).iter().any(|n| n == "iso_v");
        rep.violate(
            "archive_differs",
            format!("{how}: the archived model rebuilds another symbolic context{}", if lost { " [isolated variable lost by the archived model]" } else { "" }),
        );
        return;
    }
    match isolated(9, || load_bdd_bundle(path, g2.symbolic_context())) {
        Outcome::Ok(m) => {
            for (i, r) in reference.results.iter().enumerate() {
                match m.get(&format!("formula-{i}")) {
                    Some(s) if evalx::same_set(s, r) => {}
                    Some(s) => {
                        rep.violate("archive_differs", format!("{how}: formula-{i} (`{}`): archived {} vs library {} elements", expected[i], s.approx_cardinality(), r.approx_cardinality()));
                        return;
                    }
                    None => {
                        rep.violate("archive_differs", format!("{how}: formula-{i} missing after reload"));
                        return;
                    }
                }
            }
        }
        other => rep.violate("archive_differs", format!("{how}: archive does not reload: {}", other.describe())),
    }
}

/// A crash is a death by signal, a Rust panic (message on stderr, exit status 101) or an abort.
/// A non-zero exit status together with a message is *not* a crash: the statement says how
/// failures are reported ("as messages rather than crashes"), not which status they produce.
fn crashed(o: &CliOut) -> Option<String> {
    if let Some(s) = o.signal {
        return Some(format!("killed by signal {s}"));
    }
    if o.stderr.contains("panicked at") {
        let l = o.stderr.lines().find(|l| l.contains("panicked at")).unwrap_or("");
        let msg = o.stderr.lines().skip_while(|l| !l.contains("panicked at")).nth(1).unwrap_or("");
        return Some(format!("{} {}", crate::exec::normalise_panic(l.trim()), msg.trim()));
    }
    if matches!(o.code, Some(101) | Some(134) | Some(139)) {
        return Some(format!("exit status {:?}; stderr: {}", o.code, o.stderr.lines().next().unwrap_or("")));
    }
    None
}

/// Did the tool report an error (a trailing line that is not part of the normal output)?
fn reported_error(o: &CliOut, print: &str) -> Option<String> {
    let text = strip_ansi(&o.stdout);
    let last = text.lines().rev().find(|l| !l.trim().is_empty()).unwrap_or("").to_string();
    let normal = match print {
        "no-print" => last.is_empty(),
        "summary" => last.is_empty() || last == "-----",
        // (an empty stdout is never an error *message*; missing results are judged separately)
        _ => last.is_empty() || last.starts_with("Total computation time: "),
    };
    if !normal {
        return Some(last);
    }
    // a message on stderr (not a panic) counts as a report as well
    let e = o.stderr.lines().find(|l| !l.trim().is_empty() && !l.contains("ZipWriter drop failed"));
    e.map(|l| l.trim().to_string())
}

/// Does a run that printed a message (see `reported_error`) claim to have *failed*? It does if its
/// exit status says so, if result blocks are missing, or - when neither blocks nor an archive were
/// asked for, so that the message is all there is - if the message is on stdout. A message next to
/// complete results and exit status 0 is a diagnostic; results and archive are judged regardless.
fn claims_failure(o: &CliOut, print: &str, all_blocks_present: bool, archive_requested: bool) -> bool {
    if o.code != Some(0) {
        return true;
    }
    if print != "no-print" {
        return !all_blocks_present;
    }
    if archive_requested {
        return false;
    }
    !strip_ansi(&o.stdout).trim().is_empty()
}

pub fn check(world: &World, sc: &C17, sandbox: &str) -> Report {
    let _ = world;
    let mut rep = Report::default();
    let dir = format!("{sandbox}/run");
    let _ = std::fs::remove_dir_all(&dir);
    if std::fs::create_dir_all(&dir).is_err() {
        rep.skipped = Some("cannot create sandbox".to_string());
        return rep;
    }
    let rd = RunDir { dir: dir.clone(), log: format!("{sandbox}/io.log") };
    let bn = match parse_model(&sc.format, &sc.model_text) {
        Ok(b) => b,
        Err(e) => {
            rep.skipped = Some(format!("model text does not parse in the harness: {e}"));
            return rep;
        }
    };
    rep.probe(&format!("format_{}", sc.format), 1);
    if sc.model_text.contains("qual:id=\"iso_v\"") {
        rep.probe("networks_with_isolated_variable", 1);
    }
    rep.probe(&format!("print_{}", sc.print), 1);
    let expected = formulas_of_file(&sc.formula_file);
    let exhaustive = sc.print == "exhaustive";
    // --- input files -------------------------------------------------------------------------
    let mut model_arg = format!("model.{}", sc.format);
    let _ = std::fs::write(format!("{dir}/{model_arg}"), &sc.model_text);
    let mut formulas_arg = "formulas.txt".to_string();
    let _ = std::fs::write(format!("{dir}/{formulas_arg}"), &sc.formula_file);
    let mut expect_message = false;
    let mut unevaluable: Option<String> = None;
    match &sc.fault {
        Fault::Model(kind) => {
            expect_message = true;
            match kind.as_str() {
                "missing" => model_arg = "no-such-model.aeon".to_string(),
                "directory" => {
                    model_arg = "model-dir.aeon".to_string();
                    let _ = std::fs::create_dir_all(format!("{dir}/{model_arg}"));
                }
                "unknown_extension" => {
                    model_arg = "model.txt".to_string();
                    let _ = std::fs::write(format!("{dir}/{model_arg}"), &sc.model_text);
                }
                "not_utf8" => {
                    let _ = std::fs::write(format!("{dir}/{model_arg}"), [0xffu8, 0xfe, 0x00, 0x41, 0x80]);
                }
                _ => {
                    let _ = std::fs::write(format!("{dir}/{model_arg}"), "this is -> not a $model: ((\n<<<>>>\n");
                }
            }
        }
        Fault::Formulas(kind) => {
            expect_message = true;
            match kind.as_str() {
                "missing" => formulas_arg = "no-such-formulas.txt".to_string(),
                "directory" => {
                    formulas_arg = "formulas-dir".to_string();
                    let _ = std::fs::create_dir_all(format!("{dir}/{formulas_arg}"));
                }
                _ => {
                    let _ = std::fs::write(format!("{dir}/{formulas_arg}"), [b'A', b'X', b' ', 0xff, 0xfe, b'\n']);
                }
            }
        }
        Fault::InvalidFormula { text, .. } | Fault::MissingLabel { text, .. } => {
            // the formula file is explicit: the expectation follows from what it actually contains
            if expected.iter().any(|f| f == text.trim()) {
                expect_message = true;
                unevaluable = Some(text.trim().to_string());
            }
        }
        Fault::WildWithoutContext => {
            if expected.iter().any(|f| f.contains('%')) {
                expect_message = true;
            }
        }
        _ => {}
    }
    // --- context archive ---------------------------------------------------------------------
    let mut args: Vec<String> = vec![model_arg.clone(), formulas_arg.clone()];
    let mut chained_ctx: Option<HashMap<String, Gcv>> = None;
    let mut ctx_damaged = false;
    let mut ctx_flipped = false;
    let ctx_path = format!("{dir}/context.zip");
    if let Some(first) = &sc.chained_from {
        // first run: the tool itself produces the sets this run will consume
        let _ = std::fs::write(format!("{dir}/first.txt"), first.iter().map(|f| format!("{f}\n")).collect::<String>());
        let a1 = vec![model_arg.clone(), "first.txt".to_string(), "-o".to_string(), "first.zip".to_string(), "-p".to_string(), "no-print".to_string()];
        let (r1, _) = match isolated(sc.rand ^ 0x78, || reference(&bn, first, None, None)) {
            Outcome::Ok(x) => x,
            other => {
                rep.skipped = Some(format!("reference of the first run failed: {}", other.describe()));
                return rep;
            }
        };
        match run_cli(&rd, &a1, &steady_clock(), sc.rand ^ 1, "") {
            Ok(o1) => {
                rep.event(format!("first run exit={:?} out={:016x}", o1.code, fnv1a(o1.stdout.as_bytes())));
                if let Some(c) = crashed(&o1) {
                    rep.violate("cli_crashed", format!("first run of a chain (fault-free, formulae {first:?}): {c}"));
                    return rep;
                }
                judge_archive(&format!("{dir}/first.zip"), first, &r1, &mut rep, "first run of a chain");
                if rep.violation.is_some() {
                    return rep;
                }
                // relabel: formula-i is not a valid wild-card name, so the harness re-archives the
                // reloaded sets under the labels r0, r1, ... (for the spare-set count of run 2)
                let mut m = HashMap::new();
                let canonical = biodivine_lib_param_bn::symbolic_async_graph::SymbolicContext::new(&bn).unwrap();
                for (i, s) in r1.results.iter().enumerate() {
                    if let Some(b) = canonical.transfer_from(s.as_bdd(), r1.graph.symbolic_context()) {
                        m.insert(format!("r{i}"), Gcv::new(b, &canonical));
                    }
                }
                chained_ctx = Some(m);
                rep.probe("chained_runs", 1);
            }
            Err(e) => {
                rep.skipped = Some(e);
                return rep;
            }
        }
    }
    let uses_ctx = sc.ctx.is_some() || chained_ctx.is_some();
    // the reference (needs the spare-set count, which also decides the encoding of the context archive)
    let valid_inputs = !expect_message;
    let refr = if valid_inputs || matches!(sc.fault, Fault::InvalidFormula { .. } | Fault::MissingLabel { .. }) {
        let fs: Vec<String> = if valid_inputs { expected.clone() } else { expected.iter().filter(|f| Some((*f).clone()) != unevaluable).cloned().collect() };
        match isolated(sc.rand ^ 0x77, || reference(&bn, &fs, sc.ctx.as_ref(), chained_ctx.as_ref())) {
            Outcome::Ok(x) => Some(x),
            other => {
                // the library itself fails on this input (not a difference between tool and library)
                if valid_inputs {
                    rep.skipped = Some(format!("library reference failed on generated input: {}", other.describe()));
                    let _ = std::fs::remove_dir_all(&dir);
                    return rep;
                }
                None
            }
        }
    } else {
        None
    };
    if uses_ctx {
        // write the archive with the library (fault-free; C16 is about this function) for the
        // spare-set count the tool will use: that of *all* formulae in the file
        let k_all = expected.iter().map(|f| quant_depth_of_text(f, true)).max().unwrap_or(0) as u16;
        let garch = match get_extended_symbolic_graph(&bn, k_all) {
            Ok(g) => g,
            Err(e) => {
                rep.skipped = Some(e);
                return rep;
            }
        };
        // ordered list of entries; the map handed to the library is built first thing in a fresh
        // thread, so that its iteration order (= entry order of the archive) is a function of the
        // scenario's seed only and not of how many maps this thread happened to create before
        let mut entries: Vec<(String, Gcv)> = Vec::new();
        if let Some(specs) = &sc.ctx {
            for (l, s) in specs {
                match build_set(&garch, s) {
                    Ok(x) => {
                        entries.push((l.clone(), x));
                    }
                    Err(e) => {
                        rep.skipped = Some(e);
                        return rep;
                    }
                }
            }
        }
        if let Some(ch) = &chained_ctx {
            let canonical = biodivine_lib_param_bn::symbolic_async_graph::SymbolicContext::new(&bn).unwrap();
            let mut ls: Vec<&String> = ch.keys().collect();
            ls.sort();
            for l in ls {
                if let Some(b) = garch.symbolic_context().transfer_from(ch[l].as_bdd(), &canonical) {
                    entries.push((l.clone(), Gcv::new(b, garch.symbolic_context())));
                }
            }
        }
        if sc.ctx_decoys {
            // entries in a sub-directory (a zipped results folder with an `old/` copy): their names
            // are `old/<label>`, which no formula can refer to
            let labels: Vec<String> = entries.iter().map(|(l, _)| l.clone()).collect();
            for (i, l) in labels.iter().enumerate() {
                if let Ok(x) = build_set(&garch, &SetSpec::Dnf(77 + i as u64 + sc.rand % 1000)) {
                    entries.push((format!("old/{l}"), x.clone()));
                    entries.push((format!("backup/1/{l}"), x));
                }
            }
            rep.probe("context_archives_with_subdirectory_entries", 1);
        }
        let model_str = bn.to_string();
        let written = isolated(sc.rand ^ 0x31, || {
            let mut m: HashMap<String, Gcv> = HashMap::new();
            for (l, s) in &entries {
                m.insert(l.clone(), s.clone());
            }
            let order: Vec<String> = m.keys().cloned().collect();
            build_result_archive(m, &ctx_path, &model_str, vec![]).map_err(|e| e.to_string())?;
            Ok(order)
        });
        match &written {
            Outcome::Ok(order) => rep.event(format!("context archive entries {order:?}")),
            _ => {}
        }
        if !matches!(written, Outcome::Ok(_)) {
            rep.skipped = Some("cannot write context archive".to_string());
            return rep;
        }
        if sc.ctx_decoys {
            // the archive as a user may have re-packed it with another tool: entries in another order,
            // and entries that are not results (a note, `.orig` copies of other dumps) before and
            // between them - the loader must go by entry *name*
            if let Ok(old) = read_entries(&ctx_path) {
                use std::io::Write;
                let mut names: Vec<String> = old.keys().cloned().collect();
                Rng::new(sc.rand ^ 0x7e9a).shuffle(&mut names);
                if let Ok(f) = std::fs::File::create(&ctx_path) {
                    let mut zw = zip::ZipWriter::new(f);
                    let opt = zip::write::FileOptions::default().last_modified_time(zip::DateTime::default());
                    let _ = zw.start_file("README.txt", opt);
                    let _ = zw.write_all(b"results of an earlier analysis\n");
                    for (i, n) in names.iter().enumerate() {
                        if i % 2 == 1 {
                            let _ = zw.start_file(format!("{n}.orig"), opt);
                            let _ = zw.write_all(&old[&names[(i + 1) % names.len()]]);
                        }
                        let _ = zw.start_file(n.as_str(), opt);
                        let _ = zw.write_all(&old[n]);
                    }
                    let _ = zw.finish();
                    rep.probe("context_archives_repacked_with_other_entries", 1);
                }
            }
        }
        args.push("-e".to_string());
        args.push("context.zip".to_string());
        match &sc.fault {
            Fault::Context(kind) => {
                expect_message = true;
                let _ = std::fs::remove_file(&ctx_path);
                match kind.as_str() {
                    "directory" => {
                        let _ = std::fs::create_dir_all(&ctx_path);
                    }
                    "garbage" => {
                        let _ = std::fs::write(&ctx_path, b"PK\x03\x04 this is not a zip archive at all \x00\x01\x02");
                    }
                    "empty" => {
                        let _ = std::fs::write(&ctx_path, b"");
                    }
                    _ => {}
                }
            }
            Fault::ContextTruncated { keep } => {
                if let Ok(b) = std::fs::read(&ctx_path) {
                    if (*keep as usize) < b.len() {
                        let _ = std::fs::write(&ctx_path, &b[..*keep as usize]);
                        ctx_damaged = true;
                        rep.probe("context_truncated", 1);
                    }
                }
            }
            Fault::ContextFlipped { bit } => {
                let regions = crate::c16::data_regions(&ctx_path);
                if let Ok(mut b) = std::fs::read(&ctx_path) {
                    if !b.is_empty() {
                        let i = (*bit as usize) % (b.len() * 8);
                        b[i / 8] ^= 1 << (i % 8);
                        let _ = std::fs::write(&ctx_path, &b);
                        ctx_damaged = true;
                        // a verdict only where a checksum covers the flipped bit (entry data);
                        // names, sizes and offsets carry none
                        let in_data = regions.iter().any(|(a, e)| (i / 8) as u64 >= *a && ((i / 8) as u64) < *e);
                        ctx_flipped = !in_data;
                        rep.probe("context_bit_flipped", 1);
                        if in_data {
                            rep.probe("context_bit_flipped_in_entry_data", 1);
                        }
                    }
                }
            }
            _ => {}
        }
    }
    // --- a previous run that crashed while writing its archive; the torn file is this run's -e ---
    if let Some((kw, lt)) = sc.prior_crash {
        if !uses_ctx && valid_inputs {
            let a1 = vec![model_arg.clone(), formulas_arg.clone(), "-o".to_string(), "context.zip".to_string(), "-p".to_string(), "no-print".to_string()];
            match run_cli(&rd, &a1, &steady_clock(), sc.rand ^ 2, &format!("kill_w={kw}:{lt}")) {
                Ok(o1) => {
                    rep.event(format!("prior run exit={:?}", o1.code));
                    if o1.code == Some(137) {
                        rep.probe("fault_kill", 1);
                        rep.probe("prior_run_crashed_inside_write", 1);
                        ctx_damaged = true;
                    } else {
                        rep.probe("prior_run_completed", 1);
                    }
                    args.push("-e".to_string());
                    args.push("context.zip".to_string());
                }
                Err(e) => {
                    rep.skipped = Some(e);
                    return rep;
                }
            }
        }
    }
    // --- output ------------------------------------------------------------------------------
    let mut out_abs: Option<String> = None;
    if let Some(o) = &sc.out {
        let (arg, abs) = match o.strip_prefix("ABS:") {
            Some(name) => (format!("{dir}/{name}"), format!("{dir}/{name}")),
            None => (o.clone(), format!("{dir}/{o}")),
        };

        args.push("-o".to_string());
        args.push(arg);
        if sc.kernel_fault == "outdir" {
            // a directory sits where the archive is to be written
            let _ = std::fs::create_dir_all(&abs);
        }
        if sc.out_stale && o != "context.zip" && sc.kernel_fault != "devfull" && sc.kernel_fault != "outdir" {
            // a previous, larger run wrote to the same path
            if let Some(parent) = std::path::Path::new(&abs).parent() {
                let _ = std::fs::create_dir_all(parent);
            }
            if let Ok(g0) = get_extended_symbolic_graph(&bn, 0) {
                let mut big: HashMap<String, Gcv> = HashMap::new();
                for i in 0..14 {
                    big.insert(format!("formula-{i}"), g0.mk_unit_colored_vertices());
                }
                let lines: Vec<String> = (0..40).map(|i| format!("stale formula line {i} ........................................")).collect();
                let _ = build_result_archive(big, &abs, &format!("{}\n# stale\n", bn.to_string().repeat(3)), lines);
                rep.probe("stale_larger_archive_at_output_path", 1);
            }
        }
        out_abs = Some(abs);
        rep.probe("with_output_archive", 1);
    }
    args.push("-p".to_string());
    args.push(sc.print.clone());
    // --- the run -----------------------------------------------------------------------------
    let fsize: Option<u64> = if sc.kernel_fault == "devfull" { Some(0) } else { sc.kernel_fault.strip_prefix("fsize=").and_then(|n| n.parse().ok()) };
    let o = match run_cli_limited(&rd, &restyle(&args, sc.arg_style), &sc.clock, sc.rand, &sc.io_plan, fsize) {
        Ok(o) => o,
        Err(e) => {
            rep.skipped = Some(e);
            return rep;
        }
    };
    let fired_faults = fired(&o.counters);
    for (n, c) in &fired_faults {
        rep.probe(n, *c);
    }
    rep.probe("cli_runs", 1);
    rep.probe("clock_readings", o.counters[1]);
    // simulated wall-clock time covered by this run: the deltas of the script that were consumed
    if let Some((_, ds)) = sc.clock.split_once(':') {
        let deltas: Vec<i64> = ds.split(',').filter_map(|x| x.parse().ok()).collect();
        if !deltas.is_empty() {
            let n = o.counters[1] as usize;
            let (mut fwd, mut back) = (0u64, 0u64);
            for i in 0..n {
                let d = deltas[i.min(deltas.len() - 1)];
                if d >= 0 { fwd += d as u64 } else { back += (-d) as u64 }
            }
            rep.probe("simulated_clock_forward_ms", fwd);
            rep.probe("simulated_clock_backward_ms", back);
        }
    }
    rep.probe("intercepted_io_calls", o.counters[2] + o.counters[3] + o.counters[4] + o.counters[5] + o.counters[6]);
    // `{:?}` of the duplicate table is hash-order dependent and timing lines are clock dependent:
    // both are functions of the simulated environment, so the whole stdout belongs to the event log
    // the sandbox location is not part of the simulated world: keep it out of the event log
    let shown_args: Vec<String> = restyle(&args, sc.arg_style).iter().map(|a| a.replace(&dir, "$RUN")).collect();
    rep.event(format!(
        "cli {:?} exit={:?} sig={:?} stdout={:016x} fired={fired_faults:?}",
        shown_args,
        o.code,
        o.signal,
        fnv1a(o.stdout.replace(&dir, "$RUN").as_bytes())
    ));
    let how = format!("`hctl-model-checker {}` (clock {}, io plan [{}])", shown_args.join(" "), sc.clock, sc.io_plan);
    // a kernel-made output fault may or may not have hit (it depends on the archive's size): the run
    // is judged like one with a hard fault - an error is acceptable, a claimed success must be correct
    let kernel_fault = !sc.kernel_fault.is_empty() && sc.out.is_some();
    if kernel_fault {
        rep.probe(match sc.kernel_fault.as_str() { "devfull" => "kernel_fault_dev_full", "outdir" => "kernel_fault_directory_at_output_path", _ => "kernel_fault_rlimit_fsize" }, 1);
    }
    let hard_fault = kernel_fault || fired_faults.iter().any(|(n, _)| !matches!(n.as_str(), "fault_short_write" | "fault_short_read" | "fault_clock_backward"));
    let write_fault_only = hard_fault && fired_faults.iter().all(|(n, _)| matches!(n.as_str(), "fault_short_write" | "fault_short_read" | "fault_clock_backward" | "fault_eio_write" | "fault_enospc" | "fault_efbig" | "fault_eio_close" | "fault_eio_seek" | "fault_eintr"));
    // crashes: always judged, except under faults on the *output* file (the statement names
    // unreadable inputs, invalid formulae and missing labels)
    if let Some(c) = crashed(&o) {
        let output_fault = kernel_fault || (write_fault_only && sc.out.is_some() && o.counters[4] > 0);
        if output_fault {
            rep.probe("crash_under_output_fault", 1);
        } else {
            rep.violate("cli_crashed", format!("{how}: {c}"));
        }
        return rep;
    }
    let blocks = match parse_blocks(&o.stdout, exhaustive) {
        Ok(b) => b,
        Err(e) => {
            if hard_fault || expect_message || ctx_damaged {
                Vec::new()
            } else {
                rep.violate("printed_results_differ", format!("{how}: {e}"));
                return rep;
            }
        }
    };
    let blocks = if sc.print == "no-print" { Vec::new() } else { blocks };
    let err_line = reported_error(&o, &sc.print);
    if expect_message {
        rep.probe("input_faults", 1);
        if err_line.is_none() {
            rep.violate("no_message_for_bad_input", format!("{how}: input fault {:?} but the tool printed no message; stdout ends with {:?}", sc.fault, strip_ansi(&o.stdout).lines().last()));
            return rep;
        }
        if let Some(bad) = &unevaluable {
            if blocks.iter().any(|b| &b.formula == bad) {
                rep.violate("result_for_unevaluable_formula", format!("{how}: a result block was printed for `{bad}`"));
                return rep;
            }
        }
        if let (Some(bad), Some((r, _))) = (&unevaluable, &refr) {
            // blocks for the other formulae, if any, must be right
            let others: Vec<String> = expected.iter().filter(|f| *f != bad).cloned().collect();
            let printed: Vec<Block> = blocks.clone();
            if printed.len() <= others.len() {
                judge_blocks(&printed, &others, r, exhaustive, &mut rep, &how);
            }
        }
    } else if let Some((r, _)) = &refr {
        let in_place_out = sc.out.as_deref() == Some("context.zip");
        // no verdict on results under a flipped archive (entry names carry no checksum)
        let n_ok = if ctx_flipped { 0 } else { judge_blocks(&blocks, &expected, r, exhaustive, &mut rep, &how) };
        if rep.violation.is_some() {
            return rep;
        }
        let damaged_ok = ctx_damaged && err_line.is_some();
        if ctx_flipped {
            rep.probe(if err_line.is_some() { "flipped_context_rejected" } else { "flipped_context_accepted" }, 1);
        } else if !hard_fault && !damaged_ok {
            // complete success is required
            if let Some(e) = &err_line {
                if ctx_damaged {
                    // handled above
                } else if claims_failure(&o, &sc.print, n_ok == expected.len(), out_abs.is_some()) {
                    rep.violate("failed_without_fault", format!("{how}: valid inputs, no fault injected, but the tool reported `{e}`"));
                    return rep;
                } else {
                    // a message next to complete results and exit status 0 is a diagnostic, not a
                    // failure: the results and the archive are judged below
                    rep.probe("messages_next_to_complete_results", 1);
                }
            }
            if sc.print != "no-print" && n_ok != expected.len() {
                rep.violate("printed_results_differ", format!("{how}: {} of {} formulae have a result block", n_ok, expected.len()));
                return rep;
            }
            if let Some(p) = &out_abs {
                judge_archive(p, &expected, r, &mut rep, &how);
                rep.probe("output_archives_verified", 1);
            }
            rep.probe("complete_successes", 1);
        } else if hard_fault {
            rep.probe("runs_with_hard_fault", 1);
            // acknowledged => correct
            let acknowledged = err_line.is_none();
            if acknowledged {
                if sc.print != "no-print" && n_ok != expected.len() {
                    rep.violate("printed_results_differ", format!("{how}: no error reported, yet {} of {} formulae have a result block", n_ok, expected.len()));
                    return rep;
                }
                if let Some(p) = &out_abs {
                    judge_archive(p, &expected, r, &mut rep, &format!("{how} (no error reported under fault)"));
                    rep.probe("acknowledged_under_fault", 1);
                }
            } else {
                rep.probe("errors_reported_under_fault", 1);
                // never wrong data: whatever the failed run left at the -o path, an entry
                // `formula-i.bdd` that can be read from it must be result i (compared as text: a
                // leftover need not hold well-formed BDDs)
                // (not when an earlier run's archive was at the path: a failed open leaves it there)
                if let Some(p) = &out_abs {
                    if std::path::Path::new(p).is_file() && !sc.out_stale && !in_place_out {
                        if let Ok(entries) = read_entries(p) {
                            rep.probe("leftover_archives_inspected", 1);
                            for (i, want) in r.results.iter().enumerate() {
                                if let Some(bytes) = entries.get(&format!("formula-{i}.bdd")) {
                                    if String::from_utf8_lossy(bytes) != want.as_bdd().to_string() {
                                        rep.violate(
                                            "leftover_archive_holds_wrong_set",
                                            format!("{how}: the tool reported `{}`, yet left a well-formed archive at the -o path whose entry formula-{i}.bdd ({} bytes) is not the result of `{}` ({} bytes)", err_line.clone().unwrap_or_default(), bytes.len(), expected[i], want.as_bdd().to_string().len()),
                                        );
                                        return rep;
                                    }
                                }
                            }
                        }
                    }
                }
            }
        } else {
            rep.probe("torn_context_rejected", 1);
        }
    }
    if rep.violation.is_some() {
        return rep;
    }
    // --- bounded liveness: a fault-free re-run with valid inputs must succeed completely ---------
    // (when the bundle is updated in place, a faulty run has legitimately destroyed the context)
    let in_place = sc.out.as_deref() == Some("context.zip");
    if (hard_fault || ctx_damaged) && !expect_message && !in_place && sc.kernel_fault != "devfull" && sc.kernel_fault != "outdir" {
        if let Some((r, _)) = &refr {
            if ctx_damaged {
                // repair the context: without -e if the formulae are plain, else skip
                if sc.ctx.is_some() || chained_ctx.is_some() {
                    let _ = std::fs::remove_dir_all(&dir);
                    return finish(rep, sc);
                }
                args.retain(|a| a != "-e" && a != "context.zip");
            }
            match run_cli(&rd, &restyle(&args, sc.arg_style), &steady_clock(), sc.rand ^ 3, "") {
                Ok(o2) => {
                    rep.event(format!("rerun exit={:?} stdout={:016x}", o2.code, fnv1a(o2.stdout.replace(&dir, "$RUN").as_bytes())));
                    rep.probe("fault_free_reruns", 1);
                    let how2 = format!("fault-free re-run after a faulty run: {how}");
                    if let Some(c) = crashed(&o2) {
                        rep.violate("cli_crashed", format!("{how2}: {c}"));
                        return rep;
                    }
                    if let Some(e) = reported_error(&o2, &sc.print) {
                        let complete = sc.print == "no-print" || parse_blocks(&o2.stdout, exhaustive).map(|b| b.len() == expected.len()).unwrap_or(false);
                        if claims_failure(&o2, &sc.print, complete, out_abs.is_some()) {
                            rep.violate("failed_without_fault", format!("{how2}: the tool reported `{e}`"));
                            return rep;
                        }
                        rep.probe("messages_next_to_complete_results", 1);
                    }
                    if sc.print != "no-print" {
                        match parse_blocks(&o2.stdout, exhaustive) {
                            Ok(b2) => {
                                let n_ok = judge_blocks(&b2, &expected, r, exhaustive, &mut rep, &how2);
                                if rep.violation.is_none() && n_ok != expected.len() {
                                    rep.violate("printed_results_differ", format!("{how2}: {} of {} blocks", n_ok, expected.len()));
                                }
                            }
                            Err(e) => rep.violate("printed_results_differ", format!("{how2}: {e}")),
                        }
                    }
                    if rep.violation.is_none() {
                        if let Some(p) = &out_abs {
                            judge_archive(p, &expected, r, &mut rep, &how2);
                        }
                    }
                }
                Err(e) => {
                    rep.skipped = Some(e);
                }
            }
        }
    }
    let _ = std::fs::remove_dir_all(&dir);
    finish(rep, sc)
}

fn finish(mut rep: Report, sc: &C17) -> Report {
    let mut sig = fnv1a(format!("{}{}{:?}{:?}{}{}{}", sc.format, sc.print, sc.out, sc.fault, sc.io_plan, sc.out_stale, sc.ctx_decoys).as_bytes()) ^ sc.arg_style;
    sig ^= fnv1a(sc.formula_file.as_bytes()).rotate_left(7);
    sig ^= fnv1a(sc.clock.as_bytes()).rotate_left(17);
    let layout_plain = sc.formula_file.lines().all(|l| l == l.trim() && !l.is_empty() && !l.starts_with('#'));
    let nontrivial = !layout_plain || sc.out.is_some() || sc.ctx.is_some() || sc.fault != Fault::None || !sc.io_plan.is_empty() || sc.prior_crash.is_some() || sc.chained_from.is_some();
    if nontrivial {
        rep.signature = Some(sig);
    }
    if !layout_plain {
        rep.probe("non_trivial_file_layouts", 1);
    }
    rep
}

pub fn shrinks(sc: &C17) -> Vec<C17> {
    let mut out = Vec::new();
    let mut push = |f: &dyn Fn(&mut C17)| {
        let mut s = sc.clone();
        f(&mut s);
        if s != *sc {
            out.push(s);
        }
    };
    push(&|s| s.io_plan = String::new());
    push(&|s| s.clock = steady_clock());
    push(&|s| s.out = None);
    push(&|s| s.print = "summary".to_string());
    push(&|s| s.prior_crash = None);
    push(&|s| s.rand = 0);
    push(&|s| s.fault = Fault::None);
    push(&|s| s.out_stale = false);
    push(&|s| s.arg_style = 0);
    push(&|s| s.kernel_fault = String::new());
    push(&|s| s.ctx_decoys = false);
    if sc.io_plan.contains(',') {
        for part in sc.io_plan.split(',') {
            let p = part.to_string();
            push(&move |s| s.io_plan = p.clone());
        }
    }
    // drop lines of the formula file
    let lines: Vec<&str> = sc.formula_file.split_inclusive('\n').collect();
    if lines.len() > 1 {
        for i in 0..lines.len() {
            let mut l2 = lines.clone();
            l2.remove(i);
            let t: String = l2.concat();
            push(&move |s| s.formula_file = t.clone());
        }
    }
    // normalise the layout
    let norm: String = formulas_of_file(&sc.formula_file).iter().map(|f| format!("{f}\n")).collect();
    push(&move |s| s.formula_file = norm.clone());
    // shorter clock scripts
    if let Some((base, ds)) = sc.clock.split_once(':') {
        let v: Vec<&str> = ds.split(',').collect();
        if v.len() > 1 {
            for i in 0..v.len() {
                let mut v2 = v.clone();
                v2.remove(i);
                let c = format!("{base}:{}", v2.join(","));
                push(&move |s| s.clock = c.clone());
            }
        }
    }
    if let Some(c) = &sc.ctx {
        if c.len() > 1 {
            for i in 0..c.len() {
                let mut c2 = c.clone();
                c2.remove(i);
                push(&move |s| s.ctx = Some(c2.clone()));
            }
        }
        for i in 0..c.len() {
            if !matches!(c[i].1, SetSpec::Empty | SetSpec::Unit) {
                for repl in [SetSpec::Empty, SetSpec::Unit] {
                    let mut c2 = c.clone();
                    c2[i].1 = repl;
                    push(&move |s| s.ctx = Some(c2.clone()));
                }
            }
        }
    }
    out
}
