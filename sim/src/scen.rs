//! Shared scenario plumbing: violations, per-run reports, reach probes.

use serde_json::{Value, json};
use std::collections::BTreeMap;

#[derive(Clone, Debug, PartialEq)]
pub struct Violation {
    /// which clause of the property was violated (stable identifier, used for minimisation
    /// "same violation class" and for known-finding classification)
    pub oracle: String,
    pub detail: String,
}

#[derive(Clone, Debug, Default)]
pub struct Report {
    pub violation: Option<Violation>,
    /// reach probes / fault counters measured during the run
    pub probes: BTreeMap<String, u64>,
    /// signature of the history explored (None = the mechanism under test was not exercised)
    pub signature: Option<u64>,
    /// deterministic event log (hashed for the determinism self-test)
    pub events: Vec<String>,
    /// generator problems (reference evaluation failed etc.) - never a verdict
    pub skipped: Option<String>,
    /// when a violation is found inside an enumerating (sweep) operation: the scenario reduced
    /// to the explicit failing operations (JSON of the scenario), used as the start of minimisation
    pub pinned: Option<Value>,
}

impl Report {
    pub fn probe(&mut self, name: &str, n: u64) {
        *self.probes.entry(name.to_string()).or_insert(0) += n;
    }
    pub fn event(&mut self, e: String) {
        self.events.push(e);
    }
    pub fn violate(&mut self, oracle: &str, detail: String) {
        if self.violation.is_none() {
            self.violation = Some(Violation { oracle: oracle.to_string(), detail });
        }
    }
    pub fn event_hash(&self) -> u64 {
        let mut h = 0xcbf29ce484222325u64;
        for e in &self.events {
            h = (h ^ crate::prng::fnv1a(e.as_bytes())).wrapping_mul(0x100000001b3).rotate_left(5);
        }
        h
    }
    pub fn to_json(&self) -> Value {
        json!({
            "violation": self.violation.as_ref().map(|v| json!({"oracle": v.oracle, "detail": v.detail})),
            "probes": self.probes,
            "signature": self.signature.map(|s| format!("{s:016x}")),
            "event_hash": format!("{:016x}", self.event_hash()),
            "skipped": self.skipped,
        })
    }
}
