//! Ways of asking the library for the result of a formula or a batch: every public entry point,
//! the CLI-style loop over `eval_node`, and the references `alone` / `nocache`.

use crate::ast::F;
use crate::prng::fnv1a;
use crate::world::Env;
use biodivine_hctl_model_checker::evaluation::VarDomainMap;
use biodivine_hctl_model_checker::evaluation::algorithm::{compute_steady_states, eval_node};
use biodivine_hctl_model_checker::evaluation::eval_context::EvalContext;
use biodivine_hctl_model_checker::mc_utils::check_hctl_var_support;
use biodivine_hctl_model_checker::model_checking as mc;
use biodivine_hctl_model_checker::postprocessing::sanitizing::sanitize_colored_vertices;
use biodivine_hctl_model_checker::preprocessing::parser::{
    parse_and_minimize_extended_formula, parse_and_minimize_hctl_formula, parse_extended_formula,
    parse_hctl_formula,
};
use biodivine_hctl_model_checker::preprocessing::utils::{
    validate_and_divide_wild_cards, validate_props_and_rename_vars,
};
use biodivine_lib_param_bn::biodivine_std::traits::Set;
use biodivine_lib_param_bn::symbolic_async_graph::{GraphColoredVertices, SymbolicContext};
use std::collections::{BTreeSet, HashMap};

pub type Gcv = GraphColoredVertices;

/// Prior history of the evaluating thread: before the evaluation under test, the same thread
/// evaluates `formulae` on another network (`model`, aeon text) with `k` spare sets. The library
/// has no state that could carry over - which is exactly what this is meant to confirm.
#[derive(Clone, Debug, PartialEq)]
pub struct Prelude {
    pub model: String,
    pub k: u16,
    pub formulae: Vec<String>,
}

static PRELUDE: std::sync::Mutex<Option<Prelude>> = std::sync::Mutex::new(None);

pub fn set_prelude(p: Option<Prelude>) {
    *PRELUDE.lock().unwrap() = p;
}

fn run_prelude() {
    let p = PRELUDE.lock().unwrap().clone();
    if let Some(p) = p {
        if let Ok(bn) = biodivine_lib_param_bn::BooleanNetwork::try_from(p.model.as_str()) {
            if let Ok(g) = biodivine_hctl_model_checker::mc_utils::get_extended_symbolic_graph(&bn, p.k) {
                for f in &p.formulae {
                    let _ = mc::model_check_formula_dirty(f, &g);
                }
            }
        }
    }
}

#[derive(Clone, Copy, Debug, PartialEq, Eq)]
pub enum Mode {
    /// model_check_multiple_extended_formulae_dirty
    ExtDirty,
    /// model_check_multiple_extended_formulae (sanitised)
    ExtSan,
    /// model_check_multiple_formulae_dirty (plain formulae only)
    PlainDirty,
    /// model_check_multiple_formulae (plain, sanitised)
    PlainSan,
    /// model_check_multiple_trees_dirty (plain only; trees parsed by the library)
    TreesDirty,
    /// model_check_multiple_trees (plain, sanitised)
    TreesSan,
    /// the loop of analysis.rs (what the CLI does) driven by the harness over public `eval_node`
    CliLoop,
}

pub const ALL_MODES: [Mode; 7] = [
    Mode::ExtDirty,
    Mode::ExtSan,
    Mode::PlainDirty,
    Mode::PlainSan,
    Mode::TreesDirty,
    Mode::TreesSan,
    Mode::CliLoop,
];

impl Mode {
    pub fn name(&self) -> &'static str {
        match self {
            Mode::ExtDirty => "ext_dirty",
            Mode::ExtSan => "ext_sanitised",
            Mode::PlainDirty => "plain_dirty",
            Mode::PlainSan => "plain_sanitised",
            Mode::TreesDirty => "trees_dirty",
            Mode::TreesSan => "trees_sanitised",
            Mode::CliLoop => "cli_loop",
        }
    }
    pub fn from_name(s: &str) -> Option<Mode> {
        ALL_MODES.iter().copied().find(|m| m.name() == s)
    }
    pub fn sanitised(&self) -> bool {
        matches!(self, Mode::ExtSan | Mode::PlainSan | Mode::TreesSan)
    }
    pub fn plain_only(&self) -> bool {
        matches!(self, Mode::PlainDirty | Mode::PlainSan | Mode::TreesDirty | Mode::TreesSan)
    }
}

#[derive(Clone, Debug, PartialEq, Eq)]
pub enum ObsKind {
    /// use the entry points without observer argument
    None,
    /// record every callback
    Record,
    /// record, and on every `every`-th callback evaluate `formula` (plain) on the same graph
    Reentrant { every: usize, formula: String },
}

impl ObsKind {
    pub fn to_json(&self) -> serde_json::Value {
        match self {
            ObsKind::None => serde_json::json!("none"),
            ObsKind::Record => serde_json::json!("record"),
            ObsKind::Reentrant { every, formula } => {
                serde_json::json!({"reentrant_every": every, "formula": formula})
            }
        }
    }
    pub fn from_json(v: &serde_json::Value) -> ObsKind {
        if let Some(s) = v.as_str() {
            return if s == "record" { ObsKind::Record } else { ObsKind::None };
        }
        if let Some(e) = v.get("reentrant_every").and_then(|e| e.as_u64()) {
            return ObsKind::Reentrant {
                every: e.max(1) as usize,
                formula: v["formula"].as_str().unwrap_or("true").to_string(),
            };
        }
        ObsKind::None
    }
}

/// What an observer saw (part of the event log; also used as reach probes).
#[derive(Clone, Debug, Default, PartialEq)]
pub struct ObsLog {
    pub calls: u64,
    pub hash: u64,
    pub attractor_shortcuts: u64,
    pub steady_shortcuts: u64,
    pub restricted_scopes: u64,
    pub reentered: u64,
}

pub struct Observer<'a> {
    pub kind: ObsKind,
    pub log: ObsLog,
    env: &'a Env,
}

impl<'a> Observer<'a> {
    pub fn new(kind: ObsKind, env: &'a Env) -> Observer<'a> {
        Observer { kind, log: ObsLog::default(), env }
    }
    pub fn call(&mut self, set: &Gcv, msg: &str) {
        self.log.calls += 1;
        let mut h = self.log.hash ^ fnv1a(msg.as_bytes());
        h = h.rotate_left(13) ^ fnv1a(set_sig(set).as_bytes());
        self.log.hash = h;
        if msg == "Evaluating attractor pattern." {
            self.log.attractor_shortcuts += 1;
        } else if msg == "Evaluating fixed-point pattern." {
            self.log.steady_shortcuts += 1;
        } else if msg.contains("with restricted domain") {
            self.log.restricted_scopes += 1;
        }
        if let ObsKind::Reentrant { every, formula } = &self.kind {
            if self.log.calls % (*every as u64) == 0 {
                // a second evaluation interleaved at the only yield point the library has
                if let Ok(r) = mc::model_check_formula_dirty(formula, &self.env.graph) {
                    self.log.hash ^= fnv1a(set_sig(&r).as_bytes()).rotate_left(7);
                }
                self.log.reentered += 1;
            }
        }
    }
}

pub fn set_sig(set: &Gcv) -> String {
    format!(
        "{}/{}:{:016x}",
        set.approx_cardinality(),
        set.as_bdd().size(),
        fnv1a(set.as_bdd().to_string().as_bytes())
    )
}

/// Signature of a set that may come from a damaged archive (no BDD operation is performed on it).
pub fn raw_sig(set: &Gcv) -> String {
    format!("{}:{:016x}", set.as_bdd().size(), fnv1a(set.as_bdd().to_string().as_bytes()))
}

pub fn same_set(a: &Gcv, b: &Gcv) -> bool {
    a.as_bdd().num_vars() == b.as_bdd().num_vars() && a.as_bdd().xor(b.as_bdd()).is_false()
}

pub fn describe_diff(env: &Env, a: &Gcv, b: &Gcv) -> String {
    if a.as_bdd().num_vars() != b.as_bdd().num_vars() {
        return format!("different contexts: {} vs {} BDD variables", a.as_bdd().num_vars(), b.as_bdd().num_vars());
    }
    let unit = env.graph.unit_colored_vertices();
    let in_unit = if a.as_bdd().num_vars() == unit.as_bdd().num_vars() {
        let ai = a.intersect(unit);
        let bi = b.intersect(unit);
        if same_set(&ai, &bi) { " (differs only on invalid colours)" } else { "" }
    } else {
        ""
    };
    format!(
        "{} vs {} elements; {} vs {} colours{}",
        a.approx_cardinality(),
        b.approx_cardinality(),
        a.colors().approx_cardinality(),
        b.colors().approx_cardinality(),
        in_unit
    )
}

fn strs(fs: &[F]) -> Vec<String> {
    fs.iter().map(|f| f.render()).collect()
}

/// Evaluate a batch through the chosen entry point.
pub fn eval_batch(env: &Env, fs: &[F], mode: Mode, obs: &mut Observer) -> Result<Vec<Gcv>, String> {
    run_prelude();
    let s = strs(fs);
    let sr: Vec<&str> = s.iter().map(|x| x.as_str()).collect();
    let g = &env.graph;
    let with_obs = obs.kind != ObsKind::None;
    let mut cb = |set: &Gcv, msg: &str| obs.call(set, msg);
    match mode {
        Mode::ExtDirty => {
            if with_obs {
                mc::_model_check_multiple_extended_formulae_dirty(sr, g, &env.ctx, &mut cb)
            } else {
                mc::model_check_multiple_extended_formulae_dirty(sr, g, &env.ctx)
            }
        }
        Mode::ExtSan => {
            if with_obs {
                mc::_model_check_multiple_extended_formulae(sr, g, &env.ctx, &mut cb)
            } else {
                mc::model_check_multiple_extended_formulae(sr, g, &env.ctx)
            }
        }
        Mode::PlainDirty => {
            if with_obs {
                mc::_model_check_multiple_formulae_dirty(sr, g, &mut cb)
            } else {
                mc::model_check_multiple_formulae_dirty(sr, g)
            }
        }
        Mode::PlainSan => {
            if with_obs {
                mc::_model_check_multiple_formulae(sr, g, &mut cb)
            } else {
                mc::model_check_multiple_formulae(sr, g)
            }
        }
        Mode::TreesDirty | Mode::TreesSan => {
            let mut trees = Vec::new();
            for f in &sr {
                trees.push(parse_and_minimize_hctl_formula(g.symbolic_context(), f)?);
            }
            match (mode, with_obs) {
                (Mode::TreesDirty, true) => mc::_model_check_multiple_trees_dirty(trees, g, &mut cb),
                (Mode::TreesDirty, false) => mc::model_check_multiple_trees_dirty(trees, g),
                (_, true) => mc::_model_check_multiple_trees(trees, g, &mut cb),
                (_, false) => mc::model_check_multiple_trees(trees, g),
            }
        }
        Mode::CliLoop => {
            // mirrors analysis.rs::analyse_formulae (minus printing, timing and archive)
            let extended = fs.iter().any(|f| !f.is_plain());
            let plain_context = SymbolicContext::new(&env.bn)?;
            let mut trees = Vec::new();
            for f in &sr {
                let t = if extended { parse_extended_formula(f)? } else { parse_hctl_formula(f)? };
                trees.push(validate_props_and_rename_vars(t, &plain_context)?);
            }
            let mut props = HashMap::new();
            let mut doms = HashMap::new();
            if extended {
                for t in &trees {
                    let (p, d) = validate_and_divide_wild_cards(t, &env.ctx)?;
                    props.extend(p);
                    doms.extend(d);
                }
            }
            let mut ec = EvalContext::from_multiple_trees(&trees);
            if extended {
                ec.extend_context_with_wild_cards(&props, &doms);
            }
            let steady = compute_steady_states(g);
            let mut out = Vec::new();
            for t in trees {
                out.push(eval_node(t, g, &mut ec, &steady, &mut cb));
            }
            Ok(out)
        }
    }
}

/// Reference: the formula on its own through the single-formula raw entry point.
pub fn alone(env: &Env, f: &F) -> Result<Gcv, String> {
    run_prelude();
    mc::model_check_extended_formula_dirty(&f.render(), &env.graph, &env.ctx)
}

/// Reference: evaluation with sharing disabled. The duplicate table handed to the evaluator
/// contains no sub-formula at all; only the wild-card terminals keep their occurrence counters,
/// because wild-cards are served *only* through the cache.
pub fn nocache(env: &Env, f: &F) -> Result<Gcv, String> {
    nocache_with(env, f, None)
}

/// As [nocache]; `self_loops`: the set handed to the evaluator as "states with a self-loop"
/// (`None` = the steady states, as the library's entry points do; `Some(empty)` = the
/// self-loop-free variant).
pub fn nocache_with(env: &Env, f: &F, self_loops: Option<Gcv>) -> Result<Gcv, String> {
    run_prelude();
    let g = &env.graph;
    let tree = parse_and_minimize_extended_formula(g.symbolic_context(), &f.render())?;
    if !check_hctl_var_support(g, tree.clone()) {
        return Err("Graph does not support enough HCTL state variables".to_string());
    }
    let (props, doms) = validate_and_divide_wild_cards(&tree, &env.ctx)?;
    let mut dup = HashMap::new();
    let mut labels = BTreeSet::new();
    let mut dl = BTreeSet::new();
    f.wild_labels(&mut labels, &mut dl);
    for l in labels {
        let n = f.count_wild(&l) as i32;
        dup.insert((format!("%{l}%"), VarDomainMap::new()), n - 1);
    }
    let mut ec = EvalContext::new(dup);
    ec.extend_context_with_wild_cards(&props, &doms);
    let steady = match self_loops {
        Some(s) => s,
        None => compute_steady_states(g),
    };
    let mut cb = |_: &Gcv, _: &str| {};
    Ok(eval_node(tree, g, &mut ec, &steady, &mut cb))
}

/// Session use of the public evaluation context: the context is created once (no sub-formula
/// sharing, wild-card counters only), extended with `first`, the formula is evaluated, the context
/// is extended again with `second` (same labels, other sets) and the formula is evaluated again.
pub fn session_rebind(env: &Env, f: &F, first: &HashMap<String, Gcv>, second: &HashMap<String, Gcv>) -> Result<(Gcv, Gcv), String> {
    let g = &env.graph;
    let tree = parse_and_minimize_extended_formula(g.symbolic_context(), &f.render())?;
    if !check_hctl_var_support(g, tree.clone()) {
        return Err("Graph does not support enough HCTL state variables".to_string());
    }
    let (props, doms) = validate_and_divide_wild_cards(&tree, first)?;
    let mut dup = HashMap::new();
    let mut labels = BTreeSet::new();
    let mut dl = BTreeSet::new();
    f.wild_labels(&mut labels, &mut dl);
    for l in &labels {
        dup.insert((format!("%{l}%"), VarDomainMap::new()), f.count_wild(l) as i32 - 1);
    }
    let mut ec = EvalContext::new(dup);
    ec.extend_context_with_wild_cards(&props, &doms);
    let steady = compute_steady_states(g);
    let mut cb = |_: &Gcv, _: &str| {};
    let a = eval_node(tree.clone(), g, &mut ec, &steady, &mut cb);
    // bind the labels again
    let mut ctx2 = first.clone();
    for (l, s) in second {
        ctx2.insert(l.clone(), s.clone());
    }
    let (props2, doms2) = validate_and_divide_wild_cards(&tree, &ctx2)?;
    // occurrences have been consumed: give each label its occurrence count again
    for l in &labels {
        ec.duplicates.insert((format!("%{l}%"), VarDomainMap::new()), f.count_wild(l) as i32 - 1);
    }
    ec.extend_context_with_wild_cards(&props2, &doms2);
    let b = eval_node(tree, g, &mut ec, &steady, &mut cb);
    Ok((a, b))
}

pub fn sanitise(env: &Env, set: &Gcv) -> Gcv {
    sanitize_colored_vertices(&env.graph, set)
}
