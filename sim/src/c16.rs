//! C16 (stub, to be filled in)
use crate::prng::Rng;
use crate::scen::Report;
use crate::world::World;
use serde_json::{Value, json};

#[derive(Clone, Debug, PartialEq)]
pub struct C16 {}
impl C16 {
    pub fn to_json(&self) -> Value { json!({}) }
    pub fn from_json(_v: &Value) -> Result<C16, String> { Ok(C16 {}) }
}
pub fn generate(_rng: &Rng, _world: &World, _tier: &str) -> C16 { C16 {} }
pub fn check(_world: &World, _sc: &C16, _sandbox: &str) -> Report { Report::default() }
pub fn shrinks(_sc: &C16) -> Vec<C16> { Vec::new() }
