//! C16 - result archives reload to the sets that were written.
//!
//! History explored: Save (build_result_archive) / crash inside Save / damage to the stored
//! bytes / Restart + Load (load_bdd_bundle on a graph rebuilt from the archived model) / use of the
//! loaded sets as wild-card context - with an I/O fault plan per operation (short transfers, EINTR,
//! EIO on the j-th write/read/seek/close, ENOSPC/EFBIG after N bytes, open errors, process kill
//! inside the j-th write). In `Sweep*` operations the fault position is *enumerated* over every
//! write/read call, every byte limit, every truncation point and every bit (thorough tier) of the
//! archive of the sampled workload.
//!
//! Oracles ("acknowledged => correct", "never wrong data", bounded liveness):
//!  1. a Save that returns Ok - under any fault plan - leaves an archive that holds exactly the
//!     entries {label.bdd} + {model.aeon, formulae.txt}, whose formulae.txt is the formula list
//!     line by line, whose model rebuilds a symbolic context with the same variables in the same
//!     order, and which reloads to the same labels with equal sets;
//!  2. a Save may only fail if a fault was actually injected into it;
//!  3. a Load on an acknowledged, undamaged archive without faults returns exactly what was written;
//!     a Load that returns Ok under faults / on a torn archive never returns a set that differs
//!     from the one written under that label;
//!  4. loaded sets used as wild-card context give the same result as the in-memory sets;
//!  5. the first fault-free Save + Load after any faulty history meets 1 and 3 in full.

use crate::ast::F;
use crate::evalx::{self, Gcv};
use crate::exec::{Outcome, isolated};
use crate::prng::{Rng, fnv1a};
use crate::scen::Report;
use crate::simenv;
use crate::world::World;
use biodivine_hctl_model_checker::evaluation::algorithm::{compute_steady_states, eval_node};
use biodivine_hctl_model_checker::evaluation::eval_context::EvalContext;
use biodivine_hctl_model_checker::generate_output::build_result_archive;
use biodivine_hctl_model_checker::load_inputs::load_bdd_bundle;
use biodivine_hctl_model_checker::mc_utils::get_extended_symbolic_graph;
use biodivine_hctl_model_checker::model_checking as mc;
use biodivine_hctl_model_checker::preprocessing::parser::parse_hctl_formula;
use biodivine_lib_param_bn::BooleanNetwork;
use biodivine_lib_param_bn::biodivine_std::traits::Set;
use biodivine_lib_param_bn::symbolic_async_graph::{GraphColoredVertices, SymbolicAsyncGraph};
use serde_json::{Value, json};
use std::collections::{BTreeMap, HashMap};
use std::io::Read;

#[derive(Clone, Debug, PartialEq)]
pub enum SetSpec {
    Empty,
    Unit,
    /// random DNF over state and parameter variables, intersected with the unit set
    Dnf(u64),
    /// raw result of a closed plain formula
    ResultOf(F),
    /// raw set that depends on spare variables: `eval_node` on an *open* formula over {x}
    Open(F),
    /// union of `n` pseudo-random states (all colours): a BDD of thousands of nodes whose text form
    /// exceeds the buffers of the compression layer (only generated on benchmark-size networks)
    Large(u64, u64),
}

#[derive(Clone, Debug, PartialEq)]
pub enum Pre {
    Absent,
    Torn,
    LargerValid,
    Directory,
}

#[derive(Clone, Debug, PartialEq)]
pub enum Op {
    Save { plan: String, pre: Pre, hash_seed: u64 },
    CrashSave { kill_w: u64, let_through: u64, pre: Pre, hash_seed: u64 },
    Truncate { keep: u64 },
    Flip { bit: u64 },
    Load { plan: String, hash_seed: u64 },
    Use { formula: F },
    /// the caller's sets change (same labels, other sets): the next Save writes a new generation
    NewSets { seed: u64 },
    /// the archive's modification time is set back to that of the first acknowledged archive
    /// (what `cp -p`, `rsync -t` or a restored backup do)
    RestoreMtime,
    SweepSave { kind: String, stride: u64 },
    SweepLoad { kind: String, stride: u64 },
    SweepDamage { kind: String, stride: u64 },
    /// two caller threads of one process save different results to different paths at the same
    /// time; the shim's scheduler (seeded with `sched_seed`) decides at every file call which of
    /// them proceeds
    ConcurrentSaves { sched_seed: u64, hash_seed: u64 },
}

#[derive(Clone, Debug, PartialEq)]
pub struct C16 {
    pub format: String,
    pub sets: Vec<(String, SetSpec)>,
    pub formulae: Vec<String>,
    /// labels are the CLI's `formula-i` and set i is the raw result of formula line i
    pub cli_form: bool,
    pub nested_path: bool,
    /// the archive path is given relative to the current directory
    pub relative_path: bool,
    /// wall-clock script for the whole scenario (zip entries are stamped with the current time)
    pub clock: String,
    /// the network (given as sbml) has a variable without any regulation or update function
    pub isolated_variable: bool,
    pub ops: Vec<Op>,
}

fn pre_name(p: &Pre) -> &'static str {
    match p {
        Pre::Absent => "absent",
        Pre::Torn => "torn",
        Pre::LargerValid => "larger_valid",
        Pre::Directory => "directory",
    }
}
fn pre_from(s: &str) -> Pre {
    match s {
        "torn" => Pre::Torn,
        "larger_valid" => Pre::LargerValid,
        "directory" => Pre::Directory,
        _ => Pre::Absent,
    }
}

impl SetSpec {
    pub fn to_json(&self) -> Value {
        match self {
            SetSpec::Empty => json!("empty"),
            SetSpec::Unit => json!("unit"),
            SetSpec::Dnf(s) => json!({"dnf_seed": s}),
            SetSpec::ResultOf(f) => json!({"result_of": f.to_json(), "text": f.render()}),
            SetSpec::Open(f) => json!({"open": f.to_json(), "text": f.render()}),
            SetSpec::Large(seed, n) => json!({"large_seed": seed, "states": n}),
        }
    }
    pub fn from_json(v: &Value) -> Result<SetSpec, String> {
        if let Some(s) = v.as_str() {
            return Ok(if s == "unit" { SetSpec::Unit } else { SetSpec::Empty });
        }
        if let Some(s) = v.get("dnf_seed").and_then(|s| s.as_u64()) {
            return Ok(SetSpec::Dnf(s));
        }
        if let Some(f) = v.get("result_of") {
            return Ok(SetSpec::ResultOf(F::from_json(f)?));
        }
        if let Some(f) = v.get("open") {
            return Ok(SetSpec::Open(F::from_json(f)?));
        }
        if let Some(seed) = v.get("large_seed").and_then(|s| s.as_u64()) {
            return Ok(SetSpec::Large(seed, v["states"].as_u64().unwrap_or(100)));
        }
        Err("set spec".to_string())
    }
}

impl Op {
    fn to_json(&self) -> Value {
        match self {
            Op::Save { plan, pre, hash_seed } => json!({"op": "save", "plan": plan, "pre": pre_name(pre), "hash_seed": hash_seed}),
            Op::CrashSave { kill_w, let_through, pre, hash_seed } => {
                json!({"op": "crash_save", "kill_w": kill_w, "let_through": let_through, "pre": pre_name(pre), "hash_seed": hash_seed})
            }
            Op::Truncate { keep } => json!({"op": "truncate", "keep": keep}),
            Op::Flip { bit } => json!({"op": "flip", "bit": bit}),
            Op::Load { plan, hash_seed } => json!({"op": "load", "plan": plan, "hash_seed": hash_seed}),
            Op::Use { formula } => json!({"op": "use", "formula": formula.to_json(), "text": formula.render()}),
            Op::NewSets { seed } => json!({"op": "new_sets", "seed": seed}),
            Op::RestoreMtime => json!({"op": "restore_mtime"}),
            Op::ConcurrentSaves { sched_seed, hash_seed } => json!({"op": "concurrent_saves", "sched_seed": sched_seed, "hash_seed": hash_seed}),
            Op::SweepSave { kind, stride } => json!({"op": "sweep_save", "kind": kind, "stride": stride}),
            Op::SweepLoad { kind, stride } => json!({"op": "sweep_load", "kind": kind, "stride": stride}),
            Op::SweepDamage { kind, stride } => json!({"op": "sweep_damage", "kind": kind, "stride": stride}),
        }
    }
    fn from_json(v: &Value) -> Result<Op, String> {
        let u = |k: &str| v[k].as_u64().unwrap_or(0);
        let s = |k: &str| v[k].as_str().unwrap_or("").to_string();
        Ok(match v["op"].as_str().ok_or("op")? {
            "save" => Op::Save { plan: s("plan"), pre: pre_from(&s("pre")), hash_seed: u("hash_seed") },
            "crash_save" => Op::CrashSave { kill_w: u("kill_w"), let_through: u("let_through"), pre: pre_from(&s("pre")), hash_seed: u("hash_seed") },
            "truncate" => Op::Truncate { keep: u("keep") },
            "flip" => Op::Flip { bit: u("bit") },
            "load" => Op::Load { plan: s("plan"), hash_seed: u("hash_seed") },
            "use" => Op::Use { formula: F::from_json(&v["formula"])? },
            "new_sets" => Op::NewSets { seed: u("seed") },
            "restore_mtime" => Op::RestoreMtime,
            "concurrent_saves" => Op::ConcurrentSaves { sched_seed: u("sched_seed"), hash_seed: u("hash_seed") },
            "sweep_save" => Op::SweepSave { kind: s("kind"), stride: u("stride").max(1) },
            "sweep_load" => Op::SweepLoad { kind: s("kind"), stride: u("stride").max(1) },
            "sweep_damage" => Op::SweepDamage { kind: s("kind"), stride: u("stride").max(1) },
            o => return Err(format!("unknown op {o}")),
        })
    }
}

impl C16 {
    pub fn to_json(&self) -> Value {
        json!({
            "format": self.format,
            "sets": self.sets.iter().map(|(l, s)| json!([l, s.to_json()])).collect::<Vec<_>>(),
            "formulae": self.formulae,
            "cli_form": self.cli_form,
            "nested_path": self.nested_path,
            "relative_path": self.relative_path,
            "clock": self.clock,
            "isolated_variable": self.isolated_variable,
            "ops": self.ops.iter().map(|o| o.to_json()).collect::<Vec<_>>(),
        })
    }
    pub fn from_json(v: &Value) -> Result<C16, String> {
        let mut sets = Vec::new();
        for x in v["sets"].as_array().ok_or("sets")? {
            sets.push((x[0].as_str().ok_or("label")?.to_string(), SetSpec::from_json(&x[1])?));
        }
        let mut ops = Vec::new();
        for x in v["ops"].as_array().ok_or("ops")? {
            ops.push(Op::from_json(x)?);
        }
        Ok(C16 {
            format: v["format"].as_str().unwrap_or("aeon").to_string(),
            sets,
            formulae: v["formulae"].as_array().map(|a| a.iter().map(|s| s.as_str().unwrap_or("").to_string()).collect()).unwrap_or_default(),
            cli_form: v["cli_form"].as_bool().unwrap_or(false),
            nested_path: v["nested_path"].as_bool().unwrap_or(false),
            relative_path: v["relative_path"].as_bool().unwrap_or(false),
            clock: v["clock"].as_str().unwrap_or(crate::CLOCK_SCRIPT).to_string(),
            isolated_variable: v["isolated_variable"].as_bool().unwrap_or(false),
            ops,
        })
    }
}

const LABELS: [&str; 17] = ["a", "res_1", "X", "p0", "set", "Q_q", "z9", "attr", "fixed_points", "_u", "a.b", "with space", "\u{fc}n\u{ef}_1", "x.bdd", "a.", "A", "formula-7"];

fn small_formula(rng: &mut Rng, props: &[String], k: u16) -> F {
    let p = |rng: &mut Rng| F::prop(rng.pick(props));
    let c = rng.below(8);
    match if k == 0 && (3..=5).contains(&c) { c - 3 } else { c } {
        0 => p(rng),
        1 => F::un("AX", p(rng)),
        2 => F::un("EF", F::bin("&", p(rng), F::un("~", p(rng)))),
        3 => F::hyb("!", "x", None, F::un("AX", F::var("x"))),
        4 => F::hyb("!", "x", None, F::un("AG", F::un("EF", F::var("x")))),
        5 => F::hyb("3", "x", None, F::hyb("@", "x", None, F::un("EX", p(rng)))),
        6 => F::bin("EU", p(rng), p(rng)),
        _ => F::un("AG", F::un("~", p(rng))),
    }
}

fn random_plan(rng: &mut Rng, for_save: bool) -> String {
    if for_save {
        match rng.below(12) {
            0 => format!("shortw={}", rng.range(1, 64)),
            1 => format!("eintr={}", rng.range(1, 5)),
            2 => format!("eio_w={}", rng.range(1, 60)),
            3 => format!("enospc={}", rng.range(0, 900)),
            4 => format!("efbig={}", rng.range(0, 900)),
            5 => format!("eio_seek={}", rng.range(1, 12)),
            6 => "eio_close=1".to_string(),
            7 => format!("open_err=1:{}", rng.pick(&[2, 13, 24, 28, 5, 30])),
            8 => format!("shortw={},eintr={}", rng.range(1, 16), rng.range(2, 6)),
            9 => format!("shortw={},enospc={}", rng.range(1, 16), rng.range(0, 900)),
            _ => String::new(),
        }
    } else {
        match rng.below(9) {
            0 => format!("shortr={}", rng.range(1, 64)),
            1 => format!("eintr={}", rng.range(1, 5)),
            2 => format!("eio_r={}", rng.range(1, 30)),
            3 => format!("eio_seek={}", rng.range(1, 20)),
            4 => format!("open_err=1:{}", rng.pick(&[2, 13, 24, 5])),
            5 => format!("shortr={},eintr={}", rng.range(1, 16), rng.range(2, 6)),
            _ => String::new(),
        }
    }
}

fn random_pre_no_dir(rng: &mut Rng) -> Pre {
    match rng.weighted(&[6, 2, 2]) {
        0 => Pre::Absent,
        1 => Pre::Torn,
        _ => Pre::LargerValid,
    }
}

fn random_pre(rng: &mut Rng) -> Pre {
    match rng.weighted(&[6, 2, 2, 1]) {
        0 => Pre::Absent,
        1 => Pre::Torn,
        2 => Pre::LargerValid,
        _ => Pre::Directory,
    }
}

pub fn generate(rng: &Rng, world: &World, tier: &str) -> C16 {
    let mut r = rng.fork("c16.script");
    let props = world.var_names();
    let format = match r.weighted(&[5, 3, 2]) {
        0 => "aeon",
        1 => "sbml",
        _ => "bnet",
    }
    .to_string();
    let cli_form = r.chance(1, 4);
    let mut sets = Vec::new();
    let mut formulae = Vec::new();
    if cli_form {
        let n = r.range(1, 5);
        for i in 0..n {
            let f = small_formula(&mut r, &props, world.k);
            formulae.push(f.render());
            sets.push((format!("formula-{i}"), SetSpec::ResultOf(f)));
        }
    } else {
        let n = r.weighted(&[1, 3, 4, 3, 2, 1, 1, 1, 1]);
        let mut labels: Vec<&str> = LABELS.to_vec();
        r.shuffle(&mut labels);
        for l in labels.into_iter().take(n) {
            let spec = match r.weighted(&[2, 2, 5, 3, if world.k >= 1 { 2 } else { 0 }]) {
                0 => SetSpec::Empty,
                1 => SetSpec::Unit,
                2 => SetSpec::Dnf(r.next_u64() % 1_000_000),
                3 => SetSpec::ResultOf(small_formula(&mut r, &props, world.k)),
                _ => SetSpec::Open(F::un(*r.pick(&["AX", "EX", "EF", "~"]), F::var("x"))),
            };
            sets.push((l.to_string(), spec));
        }
        if crate::c04::big_model() {
            for (i, l) in ["big_1", "big_2"].iter().enumerate() {
                if i == 0 || r.chance(1, 2) {
                    let n = if r.chance(1, 2) {
                        r.range(1500, 6000) as u64
                    } else {
                        // text size just below a multiple of 32 KiB (often of 128 KiB)
                        let unit = if r.chance(1, 2) { 131072u64 } else { 32768 };
                        1_000_000 + unit * r.range(1, 3) as u64 - r.range(0, 6000) as u64
                    };
                    sets.push((l.to_string(), SetSpec::Large(r.next_u64() % 1_000_000, n)));
                }
            }
        }
        // labels are arbitrary strings: a label with a path separator (a zipped results folder that
        // contains an `old/` copy) must stay distinct from the top-level label of the same base name
        if !sets.is_empty() && r.chance(1, 3) {
            let base = r.pick(&sets).0.clone();
            let prefix = *r.pick(&["old", "backup/v1", "x.bdd"]);
            sets.push((format!("{prefix}/{base}"), SetSpec::Dnf(r.next_u64() % 1_000_000)));
        }
        for _ in 0..r.below(7) {
            formulae.push(small_formula(&mut r, &props, world.k).render());
        }
    }
    let mut ops = Vec::new();
    let mut h = rng.fork("c16.hash");
    let thorough = tier == "thorough";
    let kind = r.weighted(&[6, 3]);
    if kind == 0 {
        // a sampled faulty history
        let nops = r.range(2, 8);
        if !cli_form && r.chance(1, 6) {
            // two generations of results written to the same path within one process
            ops.push(Op::Save { plan: String::new(), pre: Pre::Absent, hash_seed: h.next_u64() });
            ops.push(Op::Load { plan: String::new(), hash_seed: h.next_u64() });
            ops.push(Op::NewSets { seed: r.next_u64() % 1_000_000 });
            ops.push(Op::Save { plan: String::new(), pre: Pre::Absent, hash_seed: h.next_u64() });
            if r.chance(2, 3) {
                ops.push(Op::RestoreMtime);
            }
            ops.push(Op::Load { plan: String::new(), hash_seed: h.next_u64() });
        }
        {
            // (own PRNG stream, so that the rest of the history is what it was before this operation existed)
            let mut rc = rng.fork("c16.concurrent");
            if !cli_form && !sets.is_empty() && rc.chance(1, 5) {
                ops.push(Op::ConcurrentSaves { sched_seed: rc.next_u64() % 1_000_000, hash_seed: rc.next_u64() });
            }
        }
        let clean_prefix = r.chance(1, 2);
        for step in 0..nops {
            let forced = if clean_prefix && step < 3 { Some(step) } else { None };
            let op = match forced.map(|s| [0usize, 4, 5][s]).unwrap_or_else(|| r.weighted(&[5, 2, 2, 1, 5, 3])) {
                0 if forced.is_some() => Op::Save {
                    plan: if r.chance(1, 2) { String::new() } else { format!("shortw={}", r.range(1, 32)) },
                    pre: random_pre_no_dir(&mut r),
                    hash_seed: h.next_u64(),
                },
                4 if forced.is_some() => Op::Load {
                    plan: if r.chance(1, 2) { String::new() } else { format!("shortr={}", r.range(1, 32)) },
                    hash_seed: h.next_u64(),
                },
                0 => Op::Save { plan: random_plan(&mut r, true), pre: random_pre(&mut r), hash_seed: h.next_u64() },
                1 => Op::CrashSave { kill_w: r.range(1, 70) as u64, let_through: r.range(0, 40) as u64, pre: random_pre(&mut r), hash_seed: h.next_u64() },
                2 => Op::Truncate { keep: r.range(0, 1500) as u64 },
                3 => Op::Flip { bit: r.range(0, 12000) as u64 },
                4 => Op::Load { plan: random_plan(&mut r, false), hash_seed: h.next_u64() },
                _ => {
                    let usable: Vec<&(String, SetSpec)> = sets.iter().filter(|(l, s)| !l.contains('-') && !matches!(s, SetSpec::Open(_))).collect();
                    if usable.is_empty() {
                        Op::Load { plan: String::new(), hash_seed: h.next_u64() }
                    } else {
                        let l = &r.pick(&usable).0;
                        let f = match r.below(4) {
                            0 => F::wild(l),
                            1 => F::un("EX", F::wild(l)),
                            2 => F::hyb("3", "x", Some(l.as_str()), F::hyb("@", "x", None, F::un("AX", F::var("x")))),
                            _ => F::bin("&", F::un("~", F::wild(l)), F::un("EF", F::wild(l))),
                        };
                        Op::Use { formula: f }
                    }
                }
            };
            ops.push(op);
        }
    } else {
        // fault-position enumeration on this workload
        let big = crate::c04::big_model();
        let stride_bytes = if big { r.range(1500, 4000) as u64 } else if thorough { 1 } else { r.range(3, 17) as u64 };
        let stride_calls = if thorough && !big { 1 } else { r.range(1, 3) as u64 };
        let sweeps: Vec<Op> = vec![
            Op::SweepSave { kind: "eio_w".into(), stride: stride_calls },
            Op::SweepSave { kind: "enospc".into(), stride: stride_bytes },
            Op::SweepSave { kind: "efbig".into(), stride: stride_bytes },
            Op::SweepSave { kind: "kill_w".into(), stride: stride_calls },
            Op::SweepSave { kind: "eio_seek".into(), stride: 1 },
            Op::SweepSave { kind: "shortw".into(), stride: 1 },
            Op::SweepLoad { kind: "eio_r".into(), stride: stride_calls },
            Op::SweepLoad { kind: "eio_seek".into(), stride: stride_calls },
            Op::SweepLoad { kind: "shortr".into(), stride: 1 },
            Op::SweepDamage { kind: "truncate".into(), stride: stride_bytes },
            Op::SweepDamage { kind: "flip".into(), stride: if big { r.range(20000, 60000) as u64 } else if thorough { 1 } else { r.range(5, 41) as u64 } },
        ];
        if thorough && !big {
            ops.extend(sweeps);
        } else {
            let mut s = sweeps;
            r.shuffle(&mut s);
            ops.extend(s.into_iter().take(2));
        }
    }
    let clock = if r.chance(1, 2) {
        crate::CLOCK_SCRIPT.to_string()
    } else {
        // before 1980, after 2107 (outside the range of zip time stamps), stepping backwards, stuck
        let base: i64 = *r.pick(&[0i64, 1_000, 315_532_799_000, 4_354_819_200_000, 1_700_000_000_000, 951_782_400_000]);
        let ds: Vec<String> = (0..r.range(1, 6)).map(|_| (*r.pick(&[0i64, 1, 7, 86_400_000, -5_000, -86_400_000, 3_000_000_000])).to_string()).collect();
        format!("{base}:{}", ds.join(","))
    };
    let isolated_variable = format == "sbml" && r.chance(1, 4);
    C16 { format, sets, formulae, cli_form, nested_path: r.chance(1, 4), relative_path: r.chance(1, 4), clock, isolated_variable, ops }
}

// ---------------------------------------------------------------------------------------------

struct Ctx16 {
    bn: BooleanNetwork,
    graph: SymbolicAsyncGraph,
    k: u16,
    inmem: BTreeMap<String, Gcv>,
    model_text: String,
    path: String,
    io_dir: String,
    clock: String,
}

fn counters_fired(before: &[u64], after: &[u64]) -> Vec<(String, u64)> {
    let mut v = Vec::new();
    for (i, name) in simenv::COUNTER_NAMES.iter().enumerate() {
        if name.starts_with("fault_") && after[i] > before[i] {
            v.push((name.to_string(), after[i] - before[i]));
        }
    }
    v
}

/// An SBML species without any transition: a network variable with neither regulations nor an
/// update function (legal SBML-qual; the aeon format cannot express it).
pub fn inject_isolated_species(sbml: &str, name: &str) -> String {
    match sbml.find("</qual:listOfQualitativeSpecies>") {
        Some(i) => format!(
            "{}<qual:qualitativeSpecies qual:maxLevel=\"1\" qual:constant=\"false\" qual:name=\"{name}\" qual:id=\"{name}\"/>{}",
            &sbml[..i],
            &sbml[i..]
        ),
        None => sbml.to_string(),
    }
}

fn network_in_format(world: &World, format: &str, isolated: bool) -> Result<(BooleanNetwork, String), String> {
    let bn0 = BooleanNetwork::try_from(world.model.as_str())?;
    match format {
        "sbml" => {
            let text = bn0.to_sbml(None);
            let text = if isolated { inject_isolated_species(&text, "iso_v") } else { text };
            let (bn, _) = BooleanNetwork::try_from_sbml(&text)?;
            Ok((bn, "sbml".to_string()))
        }
        "bnet" => match bn0.to_bnet(true) {
            Ok(text) => match BooleanNetwork::try_from_bnet(&text) {
                Ok(bn) => Ok((bn, "bnet".to_string())),
                Err(_) => Ok((bn0, "aeon".to_string())),
            },
            Err(_) => Ok((bn0, "aeon".to_string())),
        },
        _ => Ok((bn0, "aeon".to_string())),
    }
}

pub fn build_set(graph: &SymbolicAsyncGraph, spec: &SetSpec) -> Result<Gcv, String> {
    match spec {
        SetSpec::Empty => Ok(graph.mk_empty_colored_vertices()),
        SetSpec::Unit => Ok(graph.mk_unit_colored_vertices()),
        SetSpec::Dnf(seed) => {
            let mut rng = Rng::new(*seed);
            let ctx = graph.symbolic_context();
            let vs = ctx.bdd_variable_set();
            let mut pool = ctx.state_variables().clone();
            pool.extend(ctx.parameter_variables().iter().cloned());
            let mut b = vs.mk_false();
            for _ in 0..rng.range(1, 4) {
                let mut c = vs.mk_true();
                for _ in 0..rng.range(1, 3) {
                    c = c.and(&vs.mk_literal(*rng.pick(&pool), rng.chance(1, 2)));
                }
                b = b.or(&c);
            }
            Ok(GraphColoredVertices::new(b, ctx).intersect(graph.unit_colored_vertices()))
        }
        SetSpec::ResultOf(f) => mc::model_check_formula_dirty(&f.render(), graph),
        SetSpec::Large(seed, n) if *n >= 1_000_000 => {
            // `n` = 1_000_000 + target size in bytes of the text form: states are added until the
            // serialisation comes within 2 KB below the target (sizes next to the buffer sizes of
            // the compression layer - multiples of 32 KiB / 128 KiB - are where flush bugs live)
            let target = (*n - 1_000_000) as usize;
            let mut rng = Rng::new(*seed);
            let ctx = graph.symbolic_context();
            let vs = ctx.bdd_variable_set();
            // all symbolic variables (state, spare, parameter): the BDD grows with every minterm
            let state = vs.variables();
            let mut acc = vs.mk_false();
            for _round in 0..400 {
                let mut layer: Vec<biodivine_lib_bdd::Bdd> = Vec::new();
                for _ in 0..40 {
                    let vals: Vec<(biodivine_lib_bdd::BddVariable, bool)> = state.iter().map(|v| (*v, rng.chance(1, 2))).collect();
                    layer.push(vs.mk_conjunctive_clause(&biodivine_lib_bdd::BddPartialValuation::from_values(&vals)));
                }
                while layer.len() > 1 {
                    let mut next = Vec::new();
                    for pair in layer.chunks(2) {
                        next.push(if pair.len() == 2 { pair[0].or(&pair[1]) } else { pair[0].clone() });
                    }
                    layer = next;
                }
                let cand = acc.or(&layer[0]);
                if cand.to_string().len() + 2000 > target && !acc.is_false() {
                    // finish with single states
                    let mut fine = acc.clone();
                    for _ in 0..200 {
                        let vals: Vec<(biodivine_lib_bdd::BddVariable, bool)> = state.iter().map(|v| (*v, rng.chance(1, 2))).collect();
                        let c2 = fine.or(&vs.mk_conjunctive_clause(&biodivine_lib_bdd::BddPartialValuation::from_values(&vals)));
                        if c2.to_string().len() > target {
                            break;
                        }
                        fine = c2;
                    }
                    acc = fine;
                    break;
                }
                acc = cand;
            }
            Ok(GraphColoredVertices::new(acc, ctx).intersect(graph.unit_colored_vertices()))
        }
        SetSpec::Large(seed, n) => {
            let mut rng = Rng::new(*seed);
            let ctx = graph.symbolic_context();
            let vs = ctx.bdd_variable_set();
            let state = ctx.state_variables().clone();
            // balanced union of minterms
            let mut layer: Vec<biodivine_lib_bdd::Bdd> = Vec::new();
            for _ in 0..*n {
                let vals: Vec<(biodivine_lib_bdd::BddVariable, bool)> = state.iter().map(|v| (*v, rng.chance(1, 2))).collect();
                layer.push(vs.mk_conjunctive_clause(&biodivine_lib_bdd::BddPartialValuation::from_values(&vals)));
            }
            while layer.len() > 1 {
                let mut next = Vec::new();
                for pair in layer.chunks(2) {
                    next.push(if pair.len() == 2 { pair[0].or(&pair[1]) } else { pair[0].clone() });
                }
                layer = next;
            }
            let b = layer.pop().unwrap_or_else(|| vs.mk_false());
            Ok(GraphColoredVertices::new(b, ctx).intersect(graph.unit_colored_vertices()))
        }
        SetSpec::Open(f) => {
            if graph.symbolic_context().num_extra_state_variables() == 0 {
                return Ok(graph.mk_empty_colored_vertices());
            }
            let tree = parse_hctl_formula(&f.render())?;
            let mut ec = EvalContext::new(HashMap::new());
            let steady = compute_steady_states(graph);
            let mut cb = |_: &Gcv, _: &str| {};
            Ok(eval_node(tree, graph, &mut ec, &steady, &mut cb))
        }
    }
}

pub fn read_entries(path: &str) -> Result<BTreeMap<String, Vec<u8>>, String> {
    let f = std::fs::File::open(path).map_err(|e| e.to_string())?;
    let mut z = zip::ZipArchive::new(f).map_err(|e| e.to_string())?;
    let mut out = BTreeMap::new();
    for i in 0..z.len() {
        let mut e = z.by_index(i).map_err(|e| e.to_string())?;
        let mut buf = Vec::new();
        e.read_to_end(&mut buf).map_err(|e| e.to_string())?;
        if out.insert(e.name().to_string(), buf).is_some() {
            return Err(format!("duplicate entry {}", e.name()));
        }
    }
    Ok(out)
}

/// Byte ranges of the (compressed) entry data inside an archive. A bit flipped inside such a range
/// is covered by the entry's CRC-32, so a reader can - and the zip layer does - detect it; a bit
/// flipped elsewhere (names, sizes, offsets) is not covered by any checksum.
pub fn data_regions(path: &str) -> Vec<(u64, u64)> {
    let mut out = Vec::new();
    if let Ok(f) = std::fs::File::open(path) {
        if let Ok(mut z) = zip::ZipArchive::new(f) {
            for i in 0..z.len() {
                if let Ok(e) = z.by_index(i) {
                    out.push((e.data_start(), e.data_start() + e.compressed_size()));
                }
            }
        }
    }
    out
}

pub fn context_names(g: &SymbolicAsyncGraph) -> Vec<String> {
    let vs = g.symbolic_context().bdd_variable_set();
    vs.variables().into_iter().map(|v| vs.name_of(v)).collect()
}

impl Ctx16 {
    fn apply_pre(&self, pre: &Pre, rep: &mut Report) {
        let _ = std::fs::remove_file(&self.path);
        let _ = std::fs::remove_dir_all(&self.path);
        match pre {
            Pre::Absent => {}
            Pre::Torn => {
                let _ = std::fs::create_dir_all(std::path::Path::new(&self.path).parent().unwrap());
                let _ = std::fs::write(&self.path, b"PK\x03\x04\x14\x00\x00\x00\x08\x00torn-archive-from-a-killed-run");
                rep.probe("pre_torn_file", 1);
            }
            Pre::LargerValid => {
                let _ = std::fs::create_dir_all(std::path::Path::new(&self.path).parent().unwrap());
                let mut big: HashMap<String, Gcv> = HashMap::new();
                for i in 0..12 {
                    big.insert(format!("stale_{i}"), self.graph.mk_unit_colored_vertices());
                }
                let lines: Vec<String> = (0..40).map(|i| format!("stale formula line {i} ........................................")).collect();
                let _ = build_result_archive(big, &self.path, &format!("{}\n# stale\n", self.model_text.repeat(3)), lines);
                rep.probe("pre_larger_valid_archive", 1);
            }
            Pre::Directory => {
                let _ = std::fs::create_dir_all(&self.path);
                rep.probe("pre_directory_at_path", 1);
            }
        }
    }

    /// Run build_result_archive in a fresh thread under `plan`. Returns outcome and fired faults.
    fn save(&self, plan: &str, hash_seed: u64, formulae: &[String]) -> (Outcome<()>, Vec<(String, u64)>, String) {
        let before = simenv::counters();
        let trace = simenv::Trace::start(1 << 16);
        simenv::io(&self.io_dir, plan);
        let r = isolated(hash_seed, || {
            // the map is built inside the thread: its iteration order is a function of the hash seed
            let mut m: HashMap<String, Gcv> = HashMap::new();
            for (l, s) in &self.inmem {
                m.insert(l.clone(), s.clone());
            }
            build_result_archive(m, &self.path, &self.model_text, formulae.to_vec()).map_err(|e| e.to_string())
        });
        simenv::io(&self.io_dir, "");
        let tr = trace.stop();
        let after = simenv::counters();
        (r, counters_fired(&before, &after), tr)
    }

    /// Oracle 1: everything the statement says about an acknowledged archive.
    fn verify_acknowledged(&self, formulae: &[String], cli_form: bool, rep: &mut Report, how: &str) {
        let entries = match read_entries(&self.path) {
            Ok(e) => e,
            Err(e) => {
                rep.violate("acknowledged_save_unreadable", format!("{how}: Save returned Ok but the archive cannot be read back: {e}"));
                return;
            }
        };
        let mut expected: Vec<String> = self.inmem.keys().map(|l| format!("{l}.bdd")).collect();
        expected.push("model.aeon".to_string());
        expected.push("formulae.txt".to_string());
        expected.sort();
        // entries that the loader ignores (anything that is not a `.bdd`) may be present in addition:
        // the statement asks for one entry per result, the model and the formula list, not for nothing else
        let all: Vec<String> = entries.keys().cloned().collect();
        let got: Vec<String> = all.iter().filter(|n| n.ends_with(".bdd") || expected.contains(*n)).cloned().collect();
        if got.len() != all.len() {
            rep.probe("archive_has_additional_non_result_entries", 1);
        }
        if got != expected {
            rep.violate("archive_entries", format!("{how}: entries {all:?}, expected {expected:?}"));
            return;
        }
        let ftxt = String::from_utf8_lossy(&entries["formulae.txt"]).to_string();
        let lines: Vec<&str> = ftxt.lines().collect();
        if lines.len() != formulae.len() || lines.iter().zip(formulae.iter()).any(|(a, b)| a != b) {
            rep.violate("archive_formula_list", format!("{how}: formulae.txt holds {lines:?}, written {formulae:?}"));
            return;
        }
        // restart: rebuild everything from the archived model
        let model = String::from_utf8_lossy(&entries["model.aeon"]).to_string();
        let bn2 = match BooleanNetwork::try_from(model.as_str()) {
            Ok(b) => b,
            Err(e) => {
                rep.violate("archived_model_unreadable", format!("{how}: archived model does not parse: {e}"));
                return;
            }
        };
        let g2 = match get_extended_symbolic_graph(&bn2, self.k) {
            Ok(g) => g,
            Err(e) => {
                rep.violate("archived_model_unreadable", format!("{how}: graph of the archived model does not build: {e}"));
                return;
            }
        };
        if context_names(&g2) != context_names(&self.graph) {
            rep.violate(
                "context_differs_after_rebuild",
                format!(
                    "{how}: symbolic variables after rebuild {:?}, before {:?}{}",
                    context_names(&g2),
                    context_names(&self.graph),
                    if context_names(&self.graph).iter().any(|n| n == "iso_v") && !context_names(&g2).iter().any(|n| n == "iso_v") { " [isolated variable lost by the archived model]" } else { "" }
                ),
            );
            return;
        }
        let loaded = isolated(7, || load_bdd_bundle(&self.path, g2.symbolic_context()));
        rep.probe("restart_and_reload", 1);
        match loaded {
            Outcome::Ok(m) => {
                let mut ls: Vec<&String> = m.keys().collect();
                ls.sort();
                let want: Vec<&String> = self.inmem.keys().collect();
                if ls != want {
                    rep.violate("reload_labels", format!("{how}: reloaded labels {ls:?}, written {want:?}"));
                    return;
                }
                for (l, s) in &self.inmem {
                    if !same_serialised(&m[l], s) {
                        rep.violate("reload_set_differs", format!("{how}: label {l}: reloaded BDD of {} nodes differs from the written one ({} nodes)", m[l].as_bdd().size(), s.as_bdd().size()));
                        return;
                    }
                }
                if cli_form {
                    // entry i corresponds to line i of the archived formula list
                    for (i, line) in lines.iter().enumerate() {
                        let l = format!("formula-{i}");
                        if let (Some(s), Ok(r)) = (m.get(&l), mc::model_check_formula_dirty(line, &g2)) {
                            if !evalx::same_set(s, &r) {
                                rep.violate("entry_i_is_not_line_i", format!("{how}: entry {l} is not the result of archived line {i} `{line}`"));
                                return;
                            }
                        }
                    }
                }
            }
            other => rep.violate("acknowledged_save_not_reloadable", format!("{how}: Save returned Ok, fault-free reload {}", other.describe())),
        }
    }

    fn load(&self, plan: &str, hash_seed: u64) -> (Outcome<HashMap<String, Gcv>>, Vec<(String, u64)>) {
        // restart: a fresh graph object (from the same network; the archived model is checked by oracle 1)
        let g2 = get_extended_symbolic_graph(&self.bn, self.k).expect("graph");
        let before = simenv::counters();
        simenv::io(&self.io_dir, plan);
        let r = isolated(hash_seed, || load_bdd_bundle(&self.path, g2.symbolic_context()));
        simenv::io(&self.io_dir, "");
        let after = simenv::counters();
        (r, counters_fired(&before, &after))
    }

    /// Load in a child process (memory-limited): a damaged archive may make a reader allocate
    /// according to a corrupted size field or crash; that must not take the worker down.
    fn load_in_child(&self, plan: &str, hash_seed: u64, sandbox: &str) -> Outcome<HashMap<String, Gcv>> {
        let spec = json!({"model": self.model_text, "k": self.k, "path": self.path});
        let spec_path = format!("{sandbox}/load-spec.json");
        if std::fs::write(&spec_path, spec.to_string()).is_err() {
            return Outcome::Err("cannot write spec".to_string());
        }
        let exe = match std::env::current_exe() {
            Ok(e) => e,
            Err(e) => return Outcome::Err(e.to_string()),
        };
        let out = std::process::Command::new(exe)
            .arg("load-child")
            .arg(&spec_path)
            .env("VERIF_RAND", hash_seed.to_string())
            .env("VERIF_CLOCK", &self.clock)
            .env("VERIF_IO_PREFIX", &self.io_dir)
            .env("VERIF_IO_PLAN", plan)
            .current_dir(std::env::current_dir().unwrap_or_else(|_| "/".into()))
            .stderr(std::process::Stdio::null())
            .output();
        let out = match out {
            Ok(o) => o,
            Err(e) => return Outcome::Err(e.to_string()),
        };
        match out.status.code() {
            Some(0) => {
                let v: Value = match serde_json::from_slice(&out.stdout) {
                    Ok(v) => v,
                    Err(e) => return Outcome::Panic(format!("child output unreadable: {e}")),
                };
                let g2 = get_extended_symbolic_graph(&self.bn, self.k).expect("graph");
                let mut m = HashMap::new();
                if let Some(o) = v.as_object() {
                    for (l, s) in o {
                        m.insert(l.clone(), GraphColoredVertices::new(biodivine_lib_bdd::Bdd::from_string(s.as_str().unwrap_or("")), g2.symbolic_context()));
                    }
                }
                Outcome::Ok(m)
            }
            Some(3) => Outcome::Err(String::from_utf8_lossy(&out.stdout).trim().to_string()),
            other => Outcome::Panic(format!("reader process died: exit {other:?}")),
        }
    }

    /// Oracle 3 for a Load result. `pristine`: the archive is acknowledged and undamaged and no
    /// fault fired. `names_trusted`: entry names cannot have been altered (no bit flips).
    fn judge_load(&self, r: &Outcome<HashMap<String, Gcv>>, pristine: bool, names_trusted: bool, rep: &mut Report, how: &str) -> bool {
        self.judge_load_c(r, pristine, names_trusted, false, rep, how)
    }

    /// `complete_if_ok`: the archive on disk is intact, so a Load that reports success must return every label.
    #[allow(clippy::too_many_arguments)]
    fn judge_load_c(&self, r: &Outcome<HashMap<String, Gcv>>, pristine: bool, names_trusted: bool, complete_if_ok: bool, rep: &mut Report, how: &str) -> bool {
        match r {
            Outcome::Ok(m) => {
                for (l, s) in m {
                    match self.inmem.get(l) {
                        Some(w) => {
                            if !same_serialised(s, w) {
                                rep.violate("reload_returned_wrong_data", format!("{how}: label {l}: returned BDD of {} nodes differs from the written one ({} nodes)", s.as_bdd().size(), w.as_bdd().size()));
                                return false;
                            }
                        }
                        None => {
                            if names_trusted {
                                rep.violate("reload_returned_wrong_data", format!("{how}: returned label {l} that was never written"));
                                return false;
                            }
                        }
                    }
                }
                if pristine && m.len() != self.inmem.len() {
                    rep.violate("clean_reload_differs", format!("{how}: {} labels reloaded, {} written", m.len(), self.inmem.len()));
                    return false;
                }
                if complete_if_ok && m.len() != self.inmem.len() {
                    // the archive itself is intact; the Load was disturbed by I/O faults and still
                    // reported success, so it must have returned everything ("acknowledged => correct")
                    let mut missing: Vec<&String> = self.inmem.keys().filter(|l| !m.contains_key(*l)).collect();
                    missing.sort();
                    rep.violate("partial_reload_reported_as_success", format!("{how}: Load returned Ok without the labels {missing:?} of an intact archive"));
                    return false;
                }
                m.len() == self.inmem.len()
            }
            other => {
                if pristine {
                    rep.violate("clean_reload_differs", format!("{how}: acknowledged undamaged archive, no fault, Load {}", other.describe()));
                }
                false
            }
        }
    }
}

/// A reloaded set is the written set iff its serialisation is the serialisation that was written.
/// (Comparing the strings rather than operating on the BDDs: what a reader returns for a damaged
/// archive need not even be a well-formed BDD, and BDD operations on it may not terminate.)
fn same_serialised(a: &Gcv, b: &Gcv) -> bool {
    a.as_bdd().to_string() == b.as_bdd().to_string()
}

/// The `.bdd` entries (label -> BDD text) of a readable archive at `path`.
fn archive_snapshot(path: &str) -> Option<BTreeMap<String, String>> {
    read_entries(path).ok().map(|e| e.iter().filter_map(|(n, b)| n.strip_suffix(".bdd").map(|l| (l.to_string(), String::from_utf8_lossy(b).to_string()))).collect())
}

fn pinned(sc: &C16, ops: Vec<Op>) -> Value {
    let mut s = sc.clone();
    s.ops = ops;
    s.to_json()
}

pub fn check(world: &World, sc: &C16, sandbox: &str) -> Report {
    let mut rep = Report::default();
    let (bn, fmt) = match network_in_format(world, &sc.format, sc.isolated_variable) {
        Ok(x) => x,
        Err(e) => {
            rep.skipped = Some(format!("network does not convert to {}: {e}", sc.format));
            return rep;
        }
    };
    let graph = match get_extended_symbolic_graph(&bn, world.k) {
        Ok(g) => g,
        Err(e) => {
            rep.skipped = Some(format!("graph does not build: {e}"));
            return rep;
        }
    };
    rep.probe(&format!("format_{fmt}"), 1);
    if sc.isolated_variable && fmt == "sbml" {
        rep.probe("networks_with_isolated_variable", 1);
    }
    let mut inmem = BTreeMap::new();
    for (l, spec) in &sc.sets {
        match isolated(11, || build_set(&graph, spec)) {
            Outcome::Ok(s) => {
                inmem.insert(l.clone(), s);
            }
            other => {
                rep.skipped = Some(format!("set {l} does not build: {}", other.describe()));
                return rep;
            }
        }
    }
    let io_dir = format!("{sandbox}/io");
    let _ = std::fs::remove_dir_all(&io_dir);
    let _ = std::fs::create_dir_all(&io_dir);
    // the scenario's wall clock; a relative archive path is resolved against the I/O directory
    simenv::clock(&sc.clock);
    struct Cwd(Option<std::path::PathBuf>);
    impl Drop for Cwd {
        fn drop(&mut self) {
            if let Some(p) = &self.0 {
                let _ = std::env::set_current_dir(p);
            }
        }
    }
    let _cwd_guard = if sc.relative_path {
        let old = std::env::current_dir().ok();
        let _ = std::env::set_current_dir(&io_dir);
        rep.probe("relative_archive_paths", 1);
        Cwd(old)
    } else {
        Cwd(None)
    };
    let dir_part = if sc.relative_path { String::new() } else { format!("{io_dir}/") };
    let path = if sc.nested_path { format!("{dir_part}new/dir/results.zip") } else { format!("{dir_part}results.zip") };
    let mut cx = Ctx16 { model_text: bn.to_string(), bn, graph, k: world.k, inmem, path, io_dir, clock: sc.clock.clone() };
    let mut first_mtime: Option<std::time::SystemTime> = None;
    rep.probe("labels", cx.inmem.len() as u64);
    for (l, set) in &cx.inmem {
        let n = set.as_bdd().to_string().len() as u64;
        rep.event(format!("set {l} serialised_bytes={n}"));
        if n > 100_000 {
            rep.probe("sets_with_text_over_100kB", 1);
        }
    }
    rep.probe("empty_sets", cx.inmem.values().filter(|s| s.is_empty()).count() as u64);
    rep.probe("open_sets", sc.sets.iter().filter(|(_, s)| matches!(s, SetSpec::Open(_))).count() as u64);

    // session state
    #[derive(PartialEq)]
    enum Disk {
        Absent,
        Good,
        Suspect,
        Flipped,
        /// one bit inside the CRC-protected data of an entry was flipped (names are intact)
        FlippedData,
        /// a failed Save may have left the *previous* valid archive (other labels) in place
        Stale,
    }
    let mut disk = Disk::Absent;
    // the complete, valid archive (label -> BDD text) that was at the path before the last Save that
    // was not acknowledged: a failed Save may leave it in place (write-to-temporary-and-rename does,
    // and so does a failed open), and reading *that* back is not wrong data
    let mut prev: Option<BTreeMap<String, String>> = None;
    let mut loaded: Option<HashMap<String, Gcv>> = None;
    let mut sig = fnv1a(format!("{}{}{}", sc.sets.len(), sc.formulae.len(), fmt).as_bytes());

    let mut ops = sc.ops.clone();
    // bounded liveness: the history always ends with a fault-free Save + Load
    ops.push(Op::Save { plan: String::new(), pre: Pre::Absent, hash_seed: 3 });
    ops.push(Op::Load { plan: String::new(), hash_seed: 4 });
    let nops = ops.len();

    for (oi, op) in ops.iter().enumerate() {
        if rep.violation.is_some() {
            break;
        }
        let is_final = oi + 2 >= nops;
        match op {
            Op::Save { plan, pre, hash_seed } => {
                let pre = if is_final && disk != Disk::Absent { None } else { Some(pre) };
                if let Some(p) = pre {
                    cx.apply_pre(p, &mut rep);
                }
                let dir_in_the_way = std::path::Path::new(&cx.path).is_dir();
                let before = match pre {
                    Some(Pre::LargerValid) => archive_snapshot(&cx.path),
                    Some(_) => None,
                    None if disk == Disk::Good || disk == Disk::Stale => archive_snapshot(&cx.path),
                    None => None,
                };
                let (r, fired, trace) = cx.save(plan, *hash_seed, &sc.formulae);
                rep.event(format!("save [{plan}] {} fired={fired:?} trace={:016x}", r.describe(), fnv1a(trace.as_bytes())));
                rep.probe("saves", 1);
                for (n, c) in &fired {
                    rep.probe(n, *c);
                }
                sig ^= fnv1a(format!("save{plan}{}", r.kind()).as_bytes()).rotate_left(oi as u32);
                let how = format!("op {oi} Save[{plan}]{}", if is_final { " (final fault-free save)" } else { "" });
                match r {
                    Outcome::Ok(()) => {
                        if !fired.is_empty() {
                            rep.probe("acknowledged_saves_under_fault", 1);
                        }
                        cx.verify_acknowledged(&sc.formulae, sc.cli_form, &mut rep, &how);
                        disk = Disk::Good;
                        prev = None;
                        if first_mtime.is_none() {
                            first_mtime = std::fs::metadata(&cx.path).and_then(|m| m.modified()).ok();
                        }
                    }
                    Outcome::Err(e) => {
                        if fired.is_empty() && !dir_in_the_way {
                            rep.violate("save_failed_without_fault", format!("{how}: Err({e}) although no fault was injected"));
                        } else {
                            rep.probe("saves_failed_under_fault", 1);
                        }
                        disk = Disk::Suspect;
                        prev = before;
                    }
                    Outcome::Panic(p) => {
                        if fired.is_empty() && !dir_in_the_way {
                            rep.violate("save_failed_without_fault", format!("{how}: panicked although no fault was injected: {p}"));
                        } else {
                            rep.probe("saves_panicked_under_fault", 1);
                        }
                        disk = Disk::Suspect;
                        prev = before;
                    }
                }
                loaded = None;
            }
            Op::CrashSave { kill_w, let_through, pre, hash_seed } => {
                cx.apply_pre(pre, &mut rep);
                let before = if *pre == Pre::LargerValid { archive_snapshot(&cx.path) } else { None };
                let code = crash_save_child(&cx, sc, sandbox, *kill_w, *let_through, *hash_seed);
                rep.event(format!("crash_save kill_w={kill_w}:{let_through} exit={code:?}"));
                rep.probe("crash_saves", 1);
                sig ^= fnv1a(format!("crash{kill_w}{code:?}").as_bytes()).rotate_left(oi as u32);
                match code {
                    Some(137) => {
                        rep.probe("fault_kill", 1);
                        disk = Disk::Suspect;
                        prev = before;
                    }
                    Some(0) => {
                        // the kill point lay beyond the last write: an acknowledged save by a child
                        cx.verify_acknowledged(&sc.formulae, sc.cli_form, &mut rep, &format!("op {oi} Save in child process (kill point beyond last write)"));
                        disk = Disk::Good;
                        prev = None;
                    }
                    Some(3) => {
                        // the child reported Err (e.g. a directory at the path)
                        disk = Disk::Suspect;
                        prev = before;
                    }
                    other => {
                        rep.skipped = Some(format!("crash child exited with {other:?}"));
                        return rep;
                    }
                }
                loaded = None;
            }
            Op::Truncate { keep } => {
                if let Ok(bytes) = std::fs::read(&cx.path) {
                    if (*keep as usize) < bytes.len() {
                        let _ = std::fs::write(&cx.path, &bytes[..*keep as usize]);
                        rep.probe("damage_truncations", 1);
                        if disk == Disk::Good {
                            disk = Disk::Suspect;
                        }
                        sig ^= 0x77;
                    }
                }
                rep.event(format!("truncate {keep}"));
            }
            Op::Flip { bit } => {
                let regions = data_regions(&cx.path);
                if let Ok(mut bytes) = std::fs::read(&cx.path) {
                    if !bytes.is_empty() {
                        let b = (*bit as usize) % (bytes.len() * 8);
                        bytes[b / 8] ^= 1 << (b % 8);
                        let _ = std::fs::write(&cx.path, &bytes);
                        rep.probe("damage_bit_flips", 1);
                        let in_data = regions.iter().any(|(a, e)| (b / 8) as u64 >= *a && ((b / 8) as u64) < *e);
                        if in_data && disk == Disk::Good {
                            rep.probe("damage_bit_flips_in_entry_data", 1);
                            disk = Disk::FlippedData;
                        } else if disk != Disk::FlippedData || !in_data {
                            disk = Disk::Flipped;
                        }
                        sig ^= 0x99;
                    }
                }
                rep.event(format!("flip {bit}"));
            }
            Op::Load { plan, hash_seed } => {
                let (r, fired) = if disk == Disk::Good || disk == Disk::Absent { cx.load(plan, *hash_seed) } else { (cx.load_in_child(plan, *hash_seed, sandbox), Vec::new()) };
                rep.event(format!(
                    "load [{plan}] {} fired={fired:?}",
                    match &r {
                        Outcome::Ok(m) => {
                            let mut v: Vec<String> = m.iter().map(|(l, s)| format!("{l}={}", evalx::raw_sig(s))).collect();
                            v.sort();
                            v.join(",")
                        }
                        o => o.describe(),
                    }
                ));
                rep.probe("loads", 1);
                for (n, c) in &fired {
                    rep.probe(n, *c);
                }
                sig ^= fnv1a(format!("load{plan}{}", r.kind()).as_bytes()).rotate_left(oi as u32);
                let pristine = disk == Disk::Good && fired.is_empty();
                if disk != Disk::Good {
                    rep.probe("loads_of_suspect_archive", 1);
                    if matches!(r, Outcome::Panic(_)) {
                        rep.probe("load_panics_on_damaged_archive", 1);
                    }
                }
                let how = format!("op {oi} Load[{plan}]{}", if is_final { " (final fault-free load)" } else { "" });
                let is_prev = disk == Disk::Suspect
                    && match (&r, &prev) {
                        (Outcome::Ok(m), Some(p)) => !m.is_empty() && m.iter().all(|(l, s)| p.get(l).map(|t| *t == s.as_bdd().to_string()).unwrap_or(false)),
                        _ => false,
                    };
                let complete = if is_prev {
                    // the failed Save left the earlier archive in place, and that is what came back
                    rep.probe("loads_returning_the_archive_a_failed_save_left_in_place", 1);
                    false
                } else if disk == Disk::Stale {
                    // the previous run's archive may legitimately still be there: nothing to judge
                    rep.probe("loads_of_stale_archive", 1);
                    false
                } else if disk == Disk::Flipped {
                    // no verdict on bit-flipped archives: entry names carry no checksum, so a flipped
                    // name can collide with another label and nothing can detect it
                    rep.probe(if matches!(r, Outcome::Ok(_)) { "flipped_archive_loaded_ok" } else { "flipped_archive_rejected" }, 1);
                    false
                } else {
                    cx.judge_load_c(&r, pristine, true, disk == Disk::Good, &mut rep, &how)
                };
                loaded = if complete { r.ok().cloned() } else { None };
            }
            Op::Use { formula } => {
                if let Some(m) = &loaded {
                    let text = formula.render();
                    let inmem: HashMap<String, Gcv> = cx.inmem.iter().map(|(l, s)| (l.clone(), s.clone())).collect();
                    let a = isolated(21, || mc::model_check_extended_formula_dirty(&text, &cx.graph, &inmem));
                    let b = isolated(22, || mc::model_check_extended_formula_dirty(&text, &cx.graph, m));
                    rep.event(format!("use {text} {} {}", a.describe(), b.describe()));
                    rep.probe("loaded_sets_used_as_context", 1);
                    match (&a, &b) {
                        (Outcome::Ok(x), Outcome::Ok(y)) => {
                            if !evalx::same_set(x, y) {
                                rep.violate("loaded_context_differs", format!("op {oi} `{text}`: with loaded sets {} vs with in-memory sets {} elements", y.approx_cardinality(), x.approx_cardinality()));
                            }
                        }
                        (Outcome::Ok(_), other) => rep.violate("loaded_context_differs", format!("op {oi} `{text}`: in-memory sets ok, loaded sets {}", other.describe())),
                        _ => {}
                    }
                }
            }
            Op::NewSets { seed } => {
                if !sc.cli_form {
                    let labels: Vec<String> = cx.inmem.keys().cloned().collect();
                    for (i, l) in labels.iter().enumerate() {
                        if let Ok(s2) = build_set(&cx.graph, &SetSpec::Dnf(seed + i as u64)) {
                            cx.inmem.insert(l.clone(), s2);
                        }
                    }
                    rep.probe("set_generations_changed", 1);
                    if disk == Disk::Good {
                        // the archive on disk is a faithful copy of the *previous* generation
                        disk = Disk::Stale;
                    }
                    loaded = None;
                }
                rep.event(format!("new_sets {seed}"));
            }
            Op::ConcurrentSaves { sched_seed, hash_seed } => {
                let other: BTreeMap<String, Gcv> = cx
                    .inmem
                    .keys()
                    .enumerate()
                    .filter_map(|(i, l)| build_set(&cx.graph, &SetSpec::Dnf(sched_seed % 1000 + 17 * i as u64)).ok().map(|x| (l.clone(), x)))
                    .collect();
                let mut other_formulae = sc.formulae.clone();
                other_formulae.reverse();
                other_formulae.push("true".to_string());
                let mk = |path: String, inmem: BTreeMap<String, Gcv>| Ctx16 {
                    bn: cx.bn.clone(),
                    graph: cx.graph.clone(),
                    k: cx.k,
                    inmem,
                    model_text: cx.model_text.clone(),
                    path,
                    io_dir: cx.io_dir.clone(),
                    clock: cx.clock.clone(),
                };
                let ca = mk(format!("{}/conc-a/results.zip", cx.io_dir), cx.inmem.clone());
                let cb = mk(format!("{}/conc-b/results.zip", cx.io_dir), other);
                let jobs: Vec<(&Ctx16, Vec<String>)> = vec![(&ca, sc.formulae.clone()), (&cb, other_formulae.clone())];
                simenv::io(&cx.io_dir, "");
                simenv::sched_begin(jobs.len(), *sched_seed);
                let outcomes: Vec<Outcome<()>> = std::thread::scope(|scope| {
                    let mut hs = Vec::new();
                    for (id, (c, fl)) in jobs.iter().enumerate() {
                        // each thread draws its hash keys (first map of the thread) before the next one starts
                        simenv::reseed(hash_seed.wrapping_add(id as u64));
                        let (tx, rx) = std::sync::mpsc::channel::<()>();
                        let fl = fl.clone();
                        let h = std::thread::Builder::new()
                            .stack_size(64 << 20)
                            .spawn_scoped(scope, move || {
                                let mut m: HashMap<String, Gcv> = HashMap::new();
                                for (l, x) in &c.inmem {
                                    m.insert(l.clone(), x.clone());
                                }
                                let _ = tx.send(());
                                simenv::sched_join(id);
                                let r = std::panic::catch_unwind(std::panic::AssertUnwindSafe(|| build_result_archive(m, &c.path, &c.model_text, fl).map_err(|e| e.to_string())));
                                simenv::sched_leave();
                                r
                            })
                            .expect("spawn");
                        let _ = rx.recv();
                        hs.push(h);
                    }
                    hs.into_iter()
                        .map(|h| match h.join() {
                            Ok(Ok(Ok(()))) => Outcome::Ok(()),
                            Ok(Ok(Err(e))) => Outcome::Err(e),
                            _ => Outcome::Panic("panic in a saving thread".to_string()),
                        })
                        .collect()
                });
                let (switches, points) = simenv::sched_end();
                rep.event(format!("concurrent_saves seed={sched_seed} {} {} switches={switches} points={points}", outcomes[0].describe(), outcomes[1].describe()));
                rep.probe("concurrent_save_pairs", 1);
                rep.probe("concurrent_save_context_switches", switches);
                sig ^= fnv1a(format!("conc{}", switches.min(40)).as_bytes()).rotate_left(oi as u32);
                for ((c, fl), (o, who)) in [(&ca, &sc.formulae), (&cb, &other_formulae)].into_iter().zip(outcomes.iter().zip(["first", "second"])) {
                    let how = format!("op {oi} two threads saving at the same time (schedule seed {sched_seed}), {who} thread");
                    match o {
                        Outcome::Ok(()) => c.verify_acknowledged(fl, false, &mut rep, &how),
                        other => rep.violate("save_failed_without_fault", format!("{how}: {} although no fault was injected", other.describe())),
                    }
                    if rep.violation.is_some() {
                        break;
                    }
                }
            }
            Op::RestoreMtime => {
                if let (Some(t), Ok(f)) = (first_mtime, std::fs::OpenOptions::new().write(true).open(&cx.path)) {
                    if f.set_modified(t).is_ok() {
                        rep.probe("archive_mtime_restored", 1);
                    }
                }
                rep.event("restore_mtime".to_string());
            }
            Op::SweepSave { kind, stride } => {
                // measure the fault-free save first
                cx.apply_pre(&Pre::Absent, &mut rep);
                let (r0, _, trace) = cx.save("", 5, &sc.formulae);
                if !matches!(r0, Outcome::Ok(())) {
                    rep.violate("save_failed_without_fault", format!("op {oi}: fault-free save {}", r0.describe()));
                    break;
                }
                let writes = trace.lines().filter(|l| l.starts_with("write ")).count() as u64;
                let seeks = trace.lines().filter(|l| l.starts_with("seek ")).count() as u64;
                let bytes = std::fs::metadata(&cx.path).map(|m| m.len()).unwrap_or(0);
                let positions: Vec<String> = match kind.as_str() {
                    "eio_w" => (1..=writes).step_by(*stride as usize).map(|j| format!("eio_w={j}")).collect(),
                    "eio_seek" => (1..=seeks).map(|j| format!("eio_seek={j}")).collect(),
                    "enospc" => (0..=bytes + 8).step_by(*stride as usize).map(|n| format!("enospc={n}")).collect(),
                    "efbig" => (0..=bytes + 8).step_by(*stride as usize).map(|n| format!("efbig={n}")).collect(),
                    "shortw" => [1u64, 2, 3, 7, 16, 64].iter().map(|n| format!("shortw={n}")).chain((1..=4).map(|k| format!("eintr={k}"))).collect(),
                    "kill_w" => (1..=writes + 1).step_by(*stride as usize).flat_map(|j| vec![(j, 0u64), (j, 1), (j, 1 << 20)]).map(|(j, f)| format!("kill_w={j}:{f}")).collect(),
                    _ => Vec::new(),
                };
                rep.probe(&format!("sweep_save_{kind}_positions"), positions.len() as u64);
                sig ^= fnv1a(format!("sweepsave{kind}{writes}{bytes}").as_bytes());
                for plan in positions {
                    if let Some(rest) = plan.strip_prefix("kill_w=") {
                        let mut it = rest.split(':');
                        let j: u64 = it.next().unwrap().parse().unwrap();
                        let f: u64 = it.next().unwrap().parse().unwrap();
                        cx.apply_pre(&Pre::Absent, &mut rep);
                        let code = crash_save_child(&cx, sc, sandbox, j, f, 5);
                        rep.probe("crash_saves", 1);
                        let explicit = vec![Op::CrashSave { kill_w: j, let_through: f, pre: Pre::Absent, hash_seed: 5 }, Op::Load { plan: String::new(), hash_seed: 6 }];
                        match code {
                            Some(137) => {
                                rep.probe("fault_kill", 1);
                                let r = cx.load_in_child("", 6, sandbox);
                                rep.probe("loads_of_suspect_archive", 1);
                                cx.judge_load(&r, false, true, &mut rep, &format!("op {oi} sweep: Load after crash at {plan}"));
                            }
                            Some(0) => cx.verify_acknowledged(&sc.formulae, sc.cli_form, &mut rep, &format!("op {oi} sweep: Save in child ({plan} beyond last write)")),
                            _ => {}
                        }
                        if rep.violation.is_some() {
                            rep.pinned = Some(pinned(sc, explicit));
                            break;
                        }
                        continue;
                    }
                    cx.apply_pre(&Pre::Absent, &mut rep);
                    let (r, fired, _) = cx.save(&plan, 5, &sc.formulae);
                    rep.probe("saves", 1);
                    for (n, c) in &fired {
                        rep.probe(n, *c);
                    }
                    let how = format!("op {oi} sweep: Save[{plan}]");
                    match &r {
                        Outcome::Ok(()) => {
                            if !fired.is_empty() {
                                rep.probe("acknowledged_saves_under_fault", 1);
                            }
                            cx.verify_acknowledged(&sc.formulae, sc.cli_form, &mut rep, &how);
                        }
                        Outcome::Err(e) => {
                            if fired.is_empty() {
                                rep.violate("save_failed_without_fault", format!("{how}: Err({e}) although no fault fired"));
                            } else {
                                rep.probe("saves_failed_under_fault", 1);
                                // whatever is on disk must not be returned as wrong data
                                let lr = cx.load_in_child("", 6, sandbox);
                                rep.probe("loads_of_suspect_archive", 1);
                                cx.judge_load(&lr, false, true, &mut rep, &format!("{how} then Load"));
                            }
                        }
                        Outcome::Panic(_) => rep.probe("saves_panicked_under_fault", 1),
                    }
                    if rep.violation.is_some() {
                        rep.pinned = Some(pinned(sc, vec![Op::Save { plan: plan.clone(), pre: Pre::Absent, hash_seed: 5 }, Op::Load { plan: String::new(), hash_seed: 6 }]));
                        break;
                    }
                }
                disk = Disk::Suspect;
                prev = None;
                loaded = None;
            }
            Op::SweepLoad { kind, stride } => {
                cx.apply_pre(&Pre::Absent, &mut rep);
                let (r0, _, _) = cx.save("", 5, &sc.formulae);
                if !matches!(r0, Outcome::Ok(())) {
                    rep.violate("save_failed_without_fault", format!("op {oi}: fault-free save {}", r0.describe()));
                    break;
                }
                // measure a fault-free load
                let before = simenv::counters();
                let (l0, _) = cx.load("", 6);
                let after = simenv::counters();
                if !cx.judge_load(&l0, true, true, &mut rep, &format!("op {oi} sweep: fault-free Load")) {
                    if rep.violation.is_some() {
                        rep.pinned = Some(pinned(sc, vec![Op::Save { plan: String::new(), pre: Pre::Absent, hash_seed: 5 }, Op::Load { plan: String::new(), hash_seed: 6 }]));
                    }
                    break;
                }
                let reads = after[3] - before[3];
                let seeks = after[5] - before[5];
                let positions: Vec<String> = match kind.as_str() {
                    "eio_r" => (1..=reads).step_by(*stride as usize).map(|j| format!("eio_r={j}")).collect(),
                    "eio_seek" => (1..=seeks).step_by(*stride as usize).map(|j| format!("eio_seek={j}")).collect(),
                    "shortr" => [1u64, 2, 3, 7, 16, 64].iter().map(|n| format!("shortr={n}")).chain((1..=4).map(|k| format!("eintr={k}"))).chain([2, 13, 24, 5].iter().map(|e| format!("open_err=1:{e}"))).collect(),
                    _ => Vec::new(),
                };
                rep.probe(&format!("sweep_load_{kind}_positions"), positions.len() as u64);
                sig ^= fnv1a(format!("sweepload{kind}{reads}").as_bytes());
                for plan in positions {
                    let (r, fired) = cx.load(&plan, 6);
                    rep.probe("loads", 1);
                    for (n, c) in &fired {
                        rep.probe(n, *c);
                    }
                    cx.judge_load_c(&r, fired.is_empty(), true, true, &mut rep, &format!("op {oi} sweep: Load[{plan}]"));
                    if rep.violation.is_some() {
                        rep.pinned = Some(pinned(sc, vec![Op::Save { plan: String::new(), pre: Pre::Absent, hash_seed: 5 }, Op::Load { plan: plan.clone(), hash_seed: 6 }]));
                        break;
                    }
                }
                disk = Disk::Good;
                loaded = None;
            }
            Op::SweepDamage { kind, stride } => {
                cx.apply_pre(&Pre::Absent, &mut rep);
                let (r0, _, _) = cx.save("", 5, &sc.formulae);
                if !matches!(r0, Outcome::Ok(())) {
                    rep.violate("save_failed_without_fault", format!("op {oi}: fault-free save {}", r0.describe()));
                    break;
                }
                let good = std::fs::read(&cx.path).unwrap_or_default();
                let n = good.len() as u64;
                sig ^= fnv1a(format!("sweepdamage{kind}{n}").as_bytes());
                if kind == "truncate" {
                    let mut count = 0;
                    for keep in (0..n).step_by(*stride as usize) {
                        let _ = std::fs::write(&cx.path, &good[..keep as usize]);
                        let r = cx.load_in_child("", 6, sandbox);
                        count += 1;
                        if matches!(r, Outcome::Panic(_)) {
                            rep.probe("load_panics_on_damaged_archive", 1);
                        }
                        if matches!(r, Outcome::Ok(_)) {
                            rep.probe("torn_archive_loaded_ok", 1);
                        }
                        cx.judge_load(&r, false, true, &mut rep, &format!("op {oi} sweep: Load of archive truncated to {keep} of {n} bytes"));
                        if rep.violation.is_some() {
                            rep.pinned = Some(pinned(sc, vec![Op::Save { plan: String::new(), pre: Pre::Absent, hash_seed: 5 }, Op::Truncate { keep }, Op::Load { plan: String::new(), hash_seed: 6 }]));
                            break;
                        }
                    }
                    rep.probe("damage_truncations", count);
                    rep.probe("loads_of_suspect_archive", count);
                } else {
                    let mut count = 0;
                    let regions = data_regions(&cx.path);
                    for bit in (0..n * 8).step_by(*stride as usize) {
                        let mut b = good.clone();
                        b[(bit / 8) as usize] ^= 1 << (bit % 8);
                        let _ = std::fs::write(&cx.path, &b);
                        let r = cx.load_in_child("", 6, sandbox);
                        count += 1;
                        if matches!(r, Outcome::Panic(_)) {
                            rep.probe("load_panics_on_damaged_archive", 1);
                        }
                        rep.probe(if matches!(r, Outcome::Ok(_)) { "flipped_archive_loaded_ok" } else { "flipped_archive_rejected" }, 1);
                        // a verdict only where a checksum covers the flipped bit (see Op::Load)
                        if regions.iter().any(|(a, e)| bit / 8 >= *a && bit / 8 < *e) {
                            rep.probe("damage_bit_flips_in_entry_data", 1);
                            cx.judge_load(&r, false, true, &mut rep, &format!("op {oi} sweep: Load of archive with bit {bit} (inside CRC-protected entry data) flipped"));
                            if rep.violation.is_some() {
                                rep.pinned = Some(pinned(sc, vec![Op::Save { plan: String::new(), pre: Pre::Absent, hash_seed: 5 }, Op::Flip { bit }, Op::Load { plan: String::new(), hash_seed: 6 }]));
                                break;
                            }
                        }
                    }
                    rep.probe("damage_bit_flips", count);
                    rep.probe("loads_of_suspect_archive", count);
                }
                let _ = std::fs::write(&cx.path, &good);
                disk = Disk::Good;
                loaded = None;
            }
        }
    }
    let _ = std::fs::remove_dir_all(&cx.io_dir);
    rep.signature = Some(sig);
    rep
}

/// Execute the Save in a child process that is killed inside its `kill_w`-th write.
fn crash_save_child(cx: &Ctx16, sc: &C16, sandbox: &str, kill_w: u64, let_through: u64, hash_seed: u64) -> Option<i32> {
    let spec = json!({
        "model": cx.model_text,
        "k": cx.k,
        "sets": cx.inmem.iter().map(|(l, s)| (l.clone(), s.as_bdd().to_string())).collect::<BTreeMap<_, _>>(),
        "formulae": sc.formulae,
        "path": cx.path,
    });
    let spec_path = format!("{sandbox}/crash-spec.json");
    if std::fs::write(&spec_path, spec.to_string()).is_err() {
        return None;
    }
    let exe = std::env::current_exe().ok()?;
    let out = std::process::Command::new(exe)
        .arg("save-child")
        .arg(&spec_path)
        .env("VERIF_RAND", hash_seed.to_string())
        .env("VERIF_CLOCK", &cx.clock)
        .env("VERIF_IO_PREFIX", &cx.io_dir)
        .env("VERIF_IO_PLAN", format!("kill_w={kill_w}:{let_through}"))
        .stdout(std::process::Stdio::null())
        .stderr(std::process::Stdio::null())
        .status()
        .ok()?;
    out.code()
}

/// Entry point of the crash child (`hctl-sim save-child <spec>`): runs in the main thread, hash
/// keys / clock / fault plan come from the environment.
pub fn save_child_main(spec_path: &str) -> i32 {
    let text = match std::fs::read_to_string(spec_path) {
        Ok(t) => t,
        Err(_) => return 2,
    };
    let v: Value = match serde_json::from_str(&text) {
        Ok(v) => v,
        Err(_) => return 2,
    };
    let bn = match BooleanNetwork::try_from(v["model"].as_str().unwrap_or("")) {
        Ok(b) => b,
        Err(_) => return 2,
    };
    let g = match get_extended_symbolic_graph(&bn, v["k"].as_u64().unwrap_or(0) as u16) {
        Ok(g) => g,
        Err(_) => return 2,
    };
    let mut m: HashMap<String, Gcv> = HashMap::new();
    if let Some(sets) = v["sets"].as_object() {
        for (l, s) in sets {
            m.insert(l.clone(), GraphColoredVertices::new(biodivine_lib_bdd::Bdd::from_string(s.as_str().unwrap_or("")), g.symbolic_context()));
        }
    }
    let formulae: Vec<String> = v["formulae"].as_array().map(|a| a.iter().map(|s| s.as_str().unwrap_or("").to_string()).collect()).unwrap_or_default();
    match build_result_archive(m, v["path"].as_str().unwrap_or(""), v["model"].as_str().unwrap_or(""), formulae) {
        Ok(()) => 0,
        Err(_) => 3,
    }
}

/// Entry point of the reader child (`hctl-sim load-child <spec>`): address space limited, prints
/// {label: BDD string} on success (exit 0) or the error text (exit 3).
pub fn load_child_main(spec_path: &str) -> i32 {
    unsafe {
        let lim = libc::rlimit { rlim_cur: 3 << 30, rlim_max: 3 << 30 };
        libc::setrlimit(libc::RLIMIT_AS, &lim);
    }
    let text = match std::fs::read_to_string(spec_path) {
        Ok(t) => t,
        Err(_) => return 2,
    };
    let v: Value = match serde_json::from_str(&text) {
        Ok(v) => v,
        Err(_) => return 2,
    };
    let bn = match BooleanNetwork::try_from(v["model"].as_str().unwrap_or("")) {
        Ok(b) => b,
        Err(_) => return 2,
    };
    let g = match get_extended_symbolic_graph(&bn, v["k"].as_u64().unwrap_or(0) as u16) {
        Ok(g) => g,
        Err(_) => return 2,
    };
    match load_bdd_bundle(v["path"].as_str().unwrap_or(""), g.symbolic_context()) {
        Ok(m) => {
            let o: BTreeMap<String, String> = m.iter().map(|(l, s)| (l.clone(), s.as_bdd().to_string())).collect();
            println!("{}", serde_json::to_string(&o).unwrap_or_default());
            0
        }
        Err(e) => {
            println!("{e}");
            3
        }
    }
}

pub fn shrinks(sc: &C16) -> Vec<C16> {
    let mut out = Vec::new();
    for i in 0..sc.ops.len() {
        let mut s = sc.clone();
        s.ops.remove(i);
        out.push(s);
    }
    if sc.nested_path {
        let mut s = sc.clone();
        s.nested_path = false;
        out.push(s);
    }
    if sc.relative_path {
        let mut s = sc.clone();
        s.relative_path = false;
        out.push(s);
    }
    if sc.isolated_variable {
        let mut s = sc.clone();
        s.isolated_variable = false;
        out.push(s);
    }
    if sc.clock != crate::CLOCK_SCRIPT {
        let mut s = sc.clone();
        s.clock = crate::CLOCK_SCRIPT.to_string();
        out.push(s);
    }
    if sc.format != "aeon" {
        let mut s = sc.clone();
        s.format = "aeon".to_string();
        out.push(s);
    }
    if !sc.cli_form {
        for i in 0..sc.sets.len() {
            let mut s = sc.clone();
            s.sets.remove(i);
            out.push(s);
        }
        for i in 0..sc.formulae.len() {
            let mut s = sc.clone();
            s.formulae.remove(i);
            out.push(s);
        }
    } else if sc.sets.len() > 1 {
        let mut s = sc.clone();
        s.sets.pop();
        s.formulae.pop();
        out.push(s);
    }
    for i in 0..sc.sets.len() {
        if let SetSpec::Large(seed, n) = &sc.sets[i].1 {
            if *n > 64 && *n < 1_000_000 {
                let mut s = sc.clone();
                s.sets[i].1 = SetSpec::Large(*seed, n / 2);
                out.push(s);
            }
            continue;
        }
        if !sc.cli_form && !matches!(sc.sets[i].1, SetSpec::Empty | SetSpec::Unit) {
            for repl in [SetSpec::Empty, SetSpec::Unit] {
                let mut s = sc.clone();
                s.sets[i].1 = repl;
                out.push(s);
            }
        }
    }
    for (i, op) in sc.ops.iter().enumerate() {
        match op {
            Op::Save { plan, pre, hash_seed } => {
                if *pre != Pre::Absent {
                    let mut s = sc.clone();
                    s.ops[i] = Op::Save { plan: plan.clone(), pre: Pre::Absent, hash_seed: *hash_seed };
                    out.push(s);
                }
                if plan.contains(',') {
                    for part in plan.split(',') {
                        let mut s = sc.clone();
                        s.ops[i] = Op::Save { plan: part.to_string(), pre: pre.clone(), hash_seed: *hash_seed };
                        out.push(s);
                    }
                }
                if !plan.is_empty() {
                    let mut s = sc.clone();
                    s.ops[i] = Op::Save { plan: String::new(), pre: pre.clone(), hash_seed: *hash_seed };
                    out.push(s);
                }
            }
            Op::Load { plan, hash_seed } if !plan.is_empty() => {
                let mut s = sc.clone();
                s.ops[i] = Op::Load { plan: String::new(), hash_seed: *hash_seed };
                out.push(s);
            }
            Op::CrashSave { kill_w, let_through, pre, hash_seed } => {
                if *kill_w > 1 {
                    let mut s = sc.clone();
                    s.ops[i] = Op::CrashSave { kill_w: kill_w - 1, let_through: *let_through, pre: pre.clone(), hash_seed: *hash_seed };
                    out.push(s);
                }
                if *pre != Pre::Absent {
                    let mut s = sc.clone();
                    s.ops[i] = Op::CrashSave { kill_w: *kill_w, let_through: *let_through, pre: Pre::Absent, hash_seed: *hash_seed };
                    out.push(s);
                }
            }
            _ => {}
        }
    }
    out
}
