//! Bindings to libsimenv.so (LD_PRELOAD). Looked up with dlsym so that the harness links against
//! nothing; if the shim is not loaded the harness refuses to run (exit 2), it never guesses.

use std::ffi::{CString, c_char, c_int, c_void};

pub const COUNTER_NAMES: [&str; 23] = [
    "getrandom_calls",
    "clock_readings",
    "open_calls",
    "read_calls",
    "write_calls",
    "seek_calls",
    "close_calls",
    "fsync_calls",
    "bytes_written",
    "bytes_read",
    "fault_short_write",
    "fault_short_read",
    "fault_eintr",
    "fault_eio_write",
    "fault_eio_read",
    "fault_eio_seek",
    "fault_eio_close",
    "fault_eio_fsync",
    "fault_open_error",
    "fault_enospc",
    "fault_efbig",
    "fault_kill",
    "fault_clock_backward",
];

fn sym(name: &str) -> *mut c_void {
    let c = CString::new(name).unwrap();
    unsafe { libc::dlsym(libc::RTLD_DEFAULT, c.as_ptr()) }
}

pub fn active() -> bool {
    let p = sym("simenv_active");
    if p.is_null() {
        return false;
    }
    let f: extern "C" fn() -> c_int = unsafe { std::mem::transmute(p) };
    f() == 1
}

pub fn reseed(seed: u64) {
    let f: extern "C" fn(u64) = unsafe { std::mem::transmute(sym("simenv_reseed")) };
    f(seed)
}

/// `script` = "<base_ms>:<d0>,<d1>,..." ; empty string switches the scripted clock off.
pub fn clock(script: &str) {
    let f: extern "C" fn(*const c_char) = unsafe { std::mem::transmute(sym("simenv_clock")) };
    let c = CString::new(script).unwrap();
    f(c.as_ptr())
}

pub fn io(prefix: &str, plan: &str) {
    let f: extern "C" fn(*const c_char, *const c_char) =
        unsafe { std::mem::transmute(sym("simenv_io")) };
    let a = CString::new(prefix).unwrap();
    let b = CString::new(plan).unwrap();
    f(a.as_ptr(), b.as_ptr())
}

pub fn io_plan(plan: &str) {
    let f: extern "C" fn(*const c_char) = unsafe { std::mem::transmute(sym("simenv_io_plan")) };
    let b = CString::new(plan).unwrap();
    f(b.as_ptr())
}

pub fn counters() -> Vec<u64> {
    let f: extern "C" fn(*mut u64, c_int) = unsafe { std::mem::transmute(sym("simenv_counters")) };
    let mut v = vec![0u64; COUNTER_NAMES.len()];
    f(v.as_mut_ptr(), v.len() as c_int);
    v
}

pub fn counters_reset() {
    let f: extern "C" fn() = unsafe { std::mem::transmute(sym("simenv_counters_reset")) };
    f()
}

/// Install (or remove, with `None`) an in-memory trace buffer for intercepted I/O calls.
pub struct Trace {
    buf: Vec<u8>,
}

impl Trace {
    pub fn start(cap: usize) -> Trace {
        let mut t = Trace { buf: vec![0u8; cap] };
        let f: extern "C" fn(*mut c_char, usize) = unsafe { std::mem::transmute(sym("simenv_trace")) };
        f(t.buf.as_mut_ptr() as *mut c_char, cap);
        t
    }
    pub fn stop(self) -> String {
        let f: extern "C" fn(*mut c_char, usize) = unsafe { std::mem::transmute(sym("simenv_trace")) };
        f(std::ptr::null_mut(), 0);
        let end = self.buf.iter().position(|b| *b == 0).unwrap_or(self.buf.len());
        String::from_utf8_lossy(&self.buf[..end]).to_string()
    }
}

/// Cooperative scheduler for caller threads: after `sched_begin(n, seed)` each of the `n` threads calls
/// `sched_join(id)` (blocks until all have joined), runs only while it holds the turn - which a PRNG
/// seeded with `seed` hands over at every intercepted file call - and calls `sched_leave()` at its end.
pub fn sched_begin(n: usize, seed: u64) {
    let f: extern "C" fn(c_int, u64) = unsafe { std::mem::transmute(sym("simenv_sched_begin")) };
    f(n as c_int, seed)
}
pub fn sched_join(id: usize) {
    let f: extern "C" fn(c_int) = unsafe { std::mem::transmute(sym("simenv_sched_join")) };
    f(id as c_int)
}
pub fn sched_leave() {
    let f: extern "C" fn() = unsafe { std::mem::transmute(sym("simenv_sched_leave")) };
    f()
}
/// Returns (context switches, scheduling points).
pub fn sched_end() -> (u64, u64) {
    let f: extern "C" fn(*mut u64) -> u64 = unsafe { std::mem::transmute(sym("simenv_sched_end")) };
    let mut points = 0u64;
    let sw = f(&mut points as *mut u64);
    (sw, points)
}
