//! Formula generation. Formulae are assembled from a per-run *fragment pool* so that the same
//! sub-formula occurs several times, under different variable names, inside and outside
//! restricted scopes and across the formulae of a batch.

use crate::ast::F;
use crate::prng::Rng;

pub const NAME_POOL: [&str; 9] = ["x", "y", "z", "xx", "xxx", "var0", "x1", "s", "var1"];

#[derive(Clone, Debug)]
pub struct GenCfg {
    pub props: Vec<String>,
    /// context labels that may be used as wild-card propositions / domains
    pub labels: Vec<String>,
    pub max_depth: usize,
    pub max_size: usize,
    /// probability (num/den) that a quantifier gets a restricted domain
    pub domain_num: usize,
    pub domain_den: usize,
    /// extra weight for the attractor / steady-state patterns and their near-misses
    pub pattern_weight: usize,
    pub allow_wild: bool,
    /// allow the expensive fixed-point operators (AF/EG/AU/EW) - fine on small networks
    pub heavy_ops: bool,
}

/// Placeholder variable of one-variable fragments.
const HOLE: &str = "?";

#[derive(Clone, Debug)]
pub struct Pool {
    pub frags: Vec<F>,
}

fn p(rng: &mut Rng, cfg: &GenCfg) -> F {
    F::prop(rng.pick(&cfg.props))
}

fn fresh_name(rng: &mut Rng, scope: &[String]) -> String {
    loop {
        let n = *rng.pick(&NAME_POOL);
        if !scope.iter().any(|s| s == n) {
            return n.to_string();
        }
    }
}

pub fn attractor(v: &str) -> F {
    F::hyb("!", v, None, F::un("AG", F::un("EF", F::var(v))))
}
pub fn steady(v: &str) -> F {
    F::hyb("!", v, None, F::un("AX", F::var(v)))
}

impl Pool {
    pub fn generate(rng: &mut Rng, cfg: &GenCfg) -> Pool {
        let n = rng.range(6, 10);
        let mut frags = Vec::new();
        let h = || F::var(HOLE);
        while frags.len() < n {
            let z = fresh_name(rng, &[]);
            let lab = if cfg.allow_wild && !cfg.labels.is_empty() { Some(rng.pick(&cfg.labels).clone()) } else { None };
            let choice = rng.weighted(&[
                3, 2, 2, 3, 2, 2, 2, 2, // open fragments
                3, 2, 2 + cfg.pattern_weight, 2 + cfg.pattern_weight, 2, 2, 2, 2, 2, 2, // closed
                2, 2, 2, 1, // open fragments with a quantifier of their own inside
            ]);
            let f = match choice {
                0 => F::un("AX", h()),
                1 => F::un("EX", h()),
                2 => F::un("EF", h()),
                3 => F::un("AG", F::un("EF", h())),
                4 => F::un("~", h()),
                5 => F::un("EF", F::bin("&", p(rng, cfg), h())),
                6 => F::bin("EU", p(rng, cfg), h()),
                7 => match &lab {
                    Some(l) => F::bin("&", F::wild(l), F::un("EX", h())),
                    None => F::bin("&", p(rng, cfg), F::un("AX", h())),
                },
                8 => F::un("AX", p(rng, cfg)),
                9 => F::un("EF", p(rng, cfg)),
                10 => steady(&z),
                11 => attractor(&z),
                12 => F::hyb("3", &z, None, F::hyb("@", &z, None, F::un("EX", p(rng, cfg)))),
                13 => F::un("AG", F::un("~", p(rng, cfg))),
                14 => match &lab {
                    Some(l) => F::un("EX", F::wild(l)),
                    None => F::bin("EU", p(rng, cfg), p(rng, cfg)),
                },
                15 => F::hyb("!", &z, None, F::un("AX", F::un("~", F::var(&z)))),
                16 => match &lab {
                    Some(l) => F::hyb("!", &z, Some(l), F::un("AX", F::var(&z))),
                    None => F::un("EG", p(rng, cfg)),
                },
                17 => match &lab {
                    Some(l) => F::wild(l),
                    None => F::bin("^", p(rng, cfg), p(rng, cfg)),
                },
                18 => F::hyb("3", &z, None, F::hyb("@", &z, None, F::un("AX", h()))),
                19 => F::hyb("!", &z, None, F::un("EX", F::bin("&", F::var(&z), h()))),
                20 => F::bin("&", h(), F::hyb("3", &z, None, F::hyb("@", &z, None, F::un("EF", h())))),
                _ => match &lab {
                    Some(l) => F::hyb("V", &z, Some(l), F::hyb("@", &z, None, F::bin("=>", F::un("EF", h()), F::un("EX", F::var(&z))))),
                    None => F::hyb("!", &z, None, F::bin("|", F::un("AX", F::var(&z)), F::un("AX", h()))),
                },
            };
            frags.push(f);
        }
        Pool { frags }
    }

    fn instantiate(f: &F, v: &str) -> F {
        f.rename_var(HOLE, v)
    }

    fn pick_frag(&self, rng: &mut Rng, scope: &[String]) -> F {
        for _ in 0..8 {
            let f = rng.pick(&self.frags);
            let open = f.free_vars().contains(HOLE);
            if !open {
                // closed fragments quantify their own variable; rename it if it clashes with scope
                let mut g = f.clone();
                let mut names = std::collections::BTreeSet::new();
                g.all_var_names(&mut names);
                for nm in names {
                    if scope.contains(&nm) {
                        let fresh = fresh_name(rng, scope);
                        g = g.rename_var(&nm, &fresh);
                    }
                }
                if g.well_scoped() {
                    return g;
                }
                continue;
            }
            if !scope.is_empty() {
                // rename the fragment's own bound variables away from the scope, then fill the hole
                let mut g = f.clone();
                let mut names = std::collections::BTreeSet::new();
                g.all_var_names(&mut names);
                let mut taken: Vec<String> = scope.to_vec();
                for nm in names {
                    if nm != HOLE && scope.contains(&nm) {
                        let fresh = fresh_name(rng, &taken);
                        taken.push(fresh.clone());
                        g = g.rename_var(&nm, &fresh);
                    }
                }
                return Pool::instantiate(&g, rng.pick(scope).as_str());
            }
        }
        F::Const(true)
    }
}

impl Pool {
    /// One of the pool's open fragments with its hole filled by `v` (its own bound variables
    /// renamed away from `v`), if the pool has any.
    pub fn open_fragment(&self, rng: &mut Rng, v: &str) -> Option<F> {
        let open: Vec<&F> = self.frags.iter().filter(|f| f.free_vars().contains(HOLE)).collect();
        if open.is_empty() {
            return None;
        }
        let f = (*rng.pick(&open)).clone();
        let mut g = f;
        let mut names = std::collections::BTreeSet::new();
        g.all_var_names(&mut names);
        for nm in names {
            if nm == v {
                let fresh = fresh_name(rng, &[v.to_string()]);
                g = g.rename_var(&nm, &fresh);
            }
        }
        Some(Pool::instantiate(&g, v))
    }
}

pub struct Gen<'a> {
    pub cfg: &'a GenCfg,
    pub pool: &'a Pool,
}

impl<'a> Gen<'a> {
    fn atom(&self, rng: &mut Rng, scope: &[String]) -> F {
        let cfg = self.cfg;
        let c = rng.weighted(&[
            4,
            if scope.is_empty() { 0 } else { 4 },
            if cfg.allow_wild && !cfg.labels.is_empty() { 2 } else { 0 },
            1,
        ]);
        match c {
            0 => p(rng, cfg),
            1 => F::var(rng.pick(scope)),
            2 => F::wild(rng.pick(&cfg.labels)),
            _ => F::Const(rng.chance(1, 2)),
        }
    }

    fn rec(&self, rng: &mut Rng, size: usize, scope: &mut Vec<String>) -> F {
        let cfg = self.cfg;
        if size <= 1 {
            return self.atom(rng, scope);
        }
        if size <= 3 {
            return if rng.chance(2, 3) { self.pool.pick_frag(rng, scope) } else { self.atom(rng, scope) };
        }
        let can_quant = scope.len() < cfg.max_depth;
        let c = rng.weighted(&[
            5,
            3,
            5,
            if can_quant { 4 } else { 0 },
            if scope.is_empty() { 0 } else { 1 },
            1,
        ]);
        match c {
            0 => self.pool.pick_frag(rng, scope),
            1 => {
                let ops: &[&str] = if cfg.heavy_ops {
                    &["~", "~", "EX", "AX", "EF", "AG", "AF", "EG"]
                } else {
                    &["~", "~", "EX", "AX", "EF", "AG"]
                };
                F::un(*rng.pick(ops), self.rec(rng, size - 1, scope))
            }
            2 => {
                let ops: &[&str] = if cfg.heavy_ops {
                    &["&", "&", "&", "|", "|", "^", "=>", "<=>", "EU", "AU", "EW", "AW"]
                } else {
                    &["&", "&", "&", "|", "|", "^", "=>", "<=>", "EU", "AW"]
                };
                let op = *rng.pick(ops);
                let ls = rng.range(1, size - 2);
                let l = self.rec(rng, ls, scope);
                let r = self.rec(rng, size - 1 - ls, scope);
                F::bin(op, l, r)
            }
            3 => {
                let v = fresh_name(rng, scope);
                let op = *rng.pick(&["!", "!", "3", "3", "V"]);
                let dom = if !cfg.labels.is_empty() && rng.chance(cfg.domain_num, cfg.domain_den) {
                    Some(rng.pick(&cfg.labels).clone())
                } else {
                    None
                };
                scope.push(v.clone());
                let body = if op != "!" && rng.chance(1, 2) {
                    // the usual idiom: quantify, then jump
                    F::hyb("@", &v, None, self.rec(rng, size.saturating_sub(2).max(1), scope))
                } else if size >= 6 && rng.chance(1, 5) {
                    // a jump as the left sibling of the rest of the body
                    let j = F::hyb("@", &v, None, self.rec(rng, 2, scope));
                    F::bin(*rng.pick(&["&", "|"]), j, self.rec(rng, size - 4, scope))
                } else {
                    self.rec(rng, size - 1, scope)
                };
                scope.pop();
                F::hyb(op, &v, dom.as_deref(), body)
            }
            4 => {
                let v = rng.pick(scope).clone();
                F::hyb("@", &v, None, self.rec(rng, size - 1, scope))
            }
            _ => self.atom(rng, scope),
        }
    }

    /// A closed, well-scoped formula of at most `cfg.max_size` nodes (best effort on size).
    pub fn formula(&self, rng: &mut Rng) -> F {
        for _ in 0..16 {
            let size = rng.range(3, self.cfg.max_size.max(3));
            let f = self.rec(rng, size, &mut Vec::new());
            if f.is_closed() && f.well_scoped() && f.size() <= self.cfg.max_size + 8 && f.quant_depth() <= self.cfg.max_depth {
                return f;
            }
        }
        F::Const(true)
    }
}

/// Alpha-rename all quantified variables of a closed formula with fresh random names.
pub fn alpha_rename(rng: &mut Rng, f: &F) -> F {
    let mut names = std::collections::BTreeSet::new();
    f.all_var_names(&mut names);
    let mut g = f.clone();
    // two-phase renaming through temporary names to allow permutations such as x <-> xx
    let names: Vec<String> = names.into_iter().collect();
    let mut targets: Vec<String> = NAME_POOL.iter().map(|s| s.to_string()).collect();
    rng.shuffle(&mut targets);
    for (i, n) in names.iter().enumerate() {
        g = g.rename_var(n, &format!("\u{1}{i}"));
    }
    for (i, _) in names.iter().enumerate() {
        g = g.rename_var(&format!("\u{1}{i}"), &targets[i % targets.len()]);
    }
    if g.well_scoped() && g.is_closed() { g } else { f.clone() }
}

/// Closed proper sub-formulae (paths), excluding bare constants / propositions.
pub fn closed_subformula_paths(f: &F, include_root: bool) -> Vec<Vec<usize>> {
    f.paths()
        .into_iter()
        .filter(|p| include_root || !p.is_empty())
        .filter(|p| {
            let s = f.at(p);
            s.is_closed() && !matches!(s, F::Const(_) | F::Wild(_))
        })
        .collect()
}
