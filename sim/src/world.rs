//! Generated worlds: a small partially specified Boolean network (aeon text), the number of spare
//! variable sets, and named context sets. A world is stored *explicitly* (model text, k, BDD
//! strings over the network's canonical symbolic context), so a replay file never depends on
//! re-generation from the seed.

use crate::prng::Rng;
use biodivine_hctl_model_checker::mc_utils::get_extended_symbolic_graph;
use biodivine_lib_bdd::Bdd;
use biodivine_lib_param_bn::BooleanNetwork;
use biodivine_lib_param_bn::biodivine_std::traits::Set;
use biodivine_lib_param_bn::symbolic_async_graph::{
    GraphColoredVertices, SymbolicAsyncGraph, SymbolicContext,
};
use serde_json::{Value, json};
use std::collections::{BTreeMap, HashMap};

#[derive(Clone, Debug, PartialEq)]
pub struct World {
    /// Network in aeon format.
    pub model: String,
    /// Number of spare variable sets the graph is built with.
    pub k: u16,
    /// label -> BDD string over the canonical (k = 0) symbolic context of the network.
    pub context: BTreeMap<String, String>,
    /// the caller restricts the graph to a subset of the admissible colours (BDD string over the
    /// canonical context, parameter variables only): the graph handed to the library is built with
    /// `SymbolicAsyncGraph::with_custom_context(network, context, this set)`
    pub restrict: Option<String>,
}

/// Instantiated world (built inside the thread that uses it).
pub struct Env {
    pub bn: BooleanNetwork,
    pub graph: SymbolicAsyncGraph,
    pub ctx: HashMap<String, GraphColoredVertices>,
    pub var_names: Vec<String>,
}

// The graph and sets are plain data (vectors of BDD nodes); they are only read concurrently.
unsafe impl Sync for Env {}
unsafe impl Send for Env {}

impl World {
    pub fn to_json(&self) -> Value {
        json!({"model": self.model, "k": self.k, "context": self.context, "restrict": self.restrict})
    }
    pub fn from_json(v: &Value) -> Result<World, String> {
        let model = v["model"].as_str().ok_or("world.model")?.to_string();
        let k = v["k"].as_u64().ok_or("world.k")? as u16;
        let mut context = BTreeMap::new();
        if let Some(m) = v["context"].as_object() {
            for (l, s) in m {
                context.insert(l.clone(), s.as_str().ok_or("world.context")?.to_string());
            }
        }
        Ok(World { model, k, context, restrict: v["restrict"].as_str().map(|s| s.to_string()) })
    }

    pub fn build(&self) -> Result<Env, String> {
        self.build_with_k(self.k)
    }

    pub fn build_with_k(&self, k: u16) -> Result<Env, String> {
        let bn = BooleanNetwork::try_from(self.model.as_str())?;
        let canonical = SymbolicContext::new(&bn)?;
        let graph = match &self.restrict {
            None => get_extended_symbolic_graph(&bn, k)?,
            Some(r) => {
                // the same construction as get_extended_symbolic_graph, with the caller's unit set
                let mut extra = HashMap::new();
                for v in bn.variables() {
                    extra.insert(v, k);
                }
                let context = SymbolicContext::with_extra_state_variables(&bn, &extra)?;
                let bdd = Bdd::from_string(r);
                if bdd.num_vars() != canonical.bdd_variable_set().num_vars() {
                    return Err("colour restriction was made for a different network".to_string());
                }
                let unit = context.transfer_from(&bdd, &canonical).ok_or("cannot transfer colour restriction")?;
                SymbolicAsyncGraph::with_custom_context(&bn, context, unit)?
            }
        };
        let mut ctx = HashMap::new();
        for (label, s) in &self.context {
            let bdd = Bdd::from_string(s);
            if bdd.num_vars() != canonical.bdd_variable_set().num_vars() {
                return Err(format!("context set {label} was made for a different network"));
            }
            let moved = graph
                .symbolic_context()
                .transfer_from(&bdd, &canonical)
                .ok_or(format!("cannot transfer context set {label}"))?;
            // context sets stay inside the valid universe of the graph actually used
            ctx.insert(
                label.clone(),
                GraphColoredVertices::new(moved, graph.symbolic_context()).intersect(graph.unit_colored_vertices()),
            );
        }
        let var_names = bn.variables().map(|v| bn.get_variable_name(v).clone()).collect();
        Ok(Env { bn, graph, ctx, var_names })
    }

    pub fn var_names(&self) -> Vec<String> {
        // cheap textual extraction is not reliable; parse the network
        match BooleanNetwork::try_from(self.model.as_str()) {
            Ok(bn) => bn.variables().map(|v| bn.get_variable_name(v).clone()).collect(),
            Err(_) => Vec::new(),
        }
    }
}

const VAR_POOL: [&[&str]; 5] = [
    &["a", "b", "c", "d", "e"],
    &["v1", "v2", "v3", "v4", "v5"],
    &["x", "p", "q", "xx", "r"],
    &["Gene_1", "g2", "EXt", "A_b", "z9"],
    // legal names that look like the library's own names for spare variables
    &["sig_extra_0", "b", "q_extra_1", "d_extra", "extra_2"],
];

pub const LABEL_POOL: [&str; 12] = ["d", "p", "q", "s1", "dom_2", "A", "w", "e0", "1", "0", "true", "False"];

/// Read-once random monotone-per-literal expression over the given signed literals.
fn read_once(rng: &mut Rng, lits: &mut Vec<String>) -> String {
    if lits.len() == 1 {
        return lits.pop().unwrap();
    }
    let split = rng.range(1, lits.len() - 1);
    let mut right = lits.split_off(split);
    let l = read_once(rng, lits);
    let r = read_once(rng, &mut right);
    let op = if rng.chance(1, 2) { "&" } else { "|" };
    format!("({l} {op} {r})")
}

/// One attempt at generating network text. May describe a network without valid colours; the
/// caller retries with the next sub-stream in that case.
fn gen_model_text(rng: &mut Rng) -> String {
    let names = VAR_POOL[rng.weighted(&[5, 2, 2, 1, 1])];
    let n = rng.weighted(&[0, 1, 3, 4, 3, 2]); // 1..=5 variables
    let vars: Vec<&str> = names[..n].to_vec();
    let mut lines: Vec<String> = Vec::new();
    let mut param_bits = 0usize;
    let mut shared_fn_used = false;
    for (i, target) in vars.iter().enumerate() {
        // regulators
        let max_regs = 3.min(n);
        let nregs = rng.weighted(&[1, 4, 4, 2][..=max_regs]);
        let mut idx: Vec<usize> = (0..n).collect();
        rng.shuffle(&mut idx);
        let mut regs: Vec<usize> = idx[..nregs].to_vec();
        regs.sort();
        // kind of update function
        let mut kind = rng.weighted(&[5, 3, 2]); // explicit, implicit, uninterpreted
        if nregs == 0 {
            kind = if rng.chance(1, 2) { 0 } else { 1 };
        }
        if kind == 1 && param_bits + (1 << nregs) > 14 {
            kind = 0;
        }
        if kind == 2 && param_bits + (1 << nregs.min(2)) > 14 {
            kind = 0;
        }
        match kind {
            0 => {
                // explicit read-once function: every regulator is essential and monotone
                if nregs == 0 {
                    let c = if rng.chance(1, 2) { "true" } else { "false" };
                    lines.push(format!("${target}: {c}"));
                } else {
                    let mut lits = Vec::new();
                    for r in &regs {
                        let pos = rng.chance(3, 5);
                        lits.push(if pos { vars[*r].to_string() } else { format!("!{}", vars[*r]) });
                        let arrow = match (pos, rng.weighted(&[5, 2, 2, 1])) {
                            (true, 0) => "->",
                            (false, 0) => "-|",
                            (true, 1) => "->?",
                            (false, 1) => "-|?",
                            (_, 2) => "-?",
                            _ => "-??",
                        };
                        lines.push(format!("{} {} {}", vars[*r], arrow, target));
                    }
                    rng.shuffle(&mut lits);
                    lines.push(format!("${target}: {}", read_once(rng, &mut lits)));
                }
            }
            1 => {
                // implicit parameter: constraints on regulations cut the colour space
                param_bits += 1 << nregs;
                for r in &regs {
                    let arrow = *rng.pick(&["->", "-|", "-?", "->?", "-|?", "-??"]);
                    lines.push(format!("{} {} {}", vars[*r], arrow, target));
                }
            }
            _ => {
                // uninterpreted function(s), possibly shared between variables, possibly combined
                // with an explicit part
                let fargs: Vec<&str> = regs.iter().take(2).map(|r| vars[*r]).collect();
                let fname = if fargs.len() == 1 && (shared_fn_used || rng.chance(1, 2)) {
                    shared_fn_used = true;
                    "sh".to_string()
                } else {
                    format!("f{i}_{}", fargs.len())
                };
                param_bits += 1 << fargs.len();
                let mut expr = format!("{}({})", fname, fargs.join(", "));
                for r in regs.iter().skip(2) {
                    let op = if rng.chance(1, 2) { "&" } else { "|" };
                    let neg = if rng.chance(1, 3) { "!" } else { "" };
                    expr = format!("({expr} {op} {neg}{})", vars[*r]);
                }
                if rng.chance(1, 4) {
                    // constant (arity-0) parameter: an "input parameter" for the graph library
                    expr = format!("({expr} | k{i})");
                    param_bits += 1;
                }
                for r in &regs {
                    let arrow = *rng.pick(&["-?", "-??", "->?", "-|?", "->", "-|"]);
                    lines.push(format!("{} {} {}", vars[*r], arrow, target));
                }
                lines.push(format!("${target}: {expr}"));
            }
        }
    }
    // make sure every variable is mentioned even if it has no regulation: aeon needs at least
    // a function line or a regulation for a variable to exist
    for v in &vars {
        let mentioned = lines.iter().any(|l| {
            l.starts_with(&format!("${v}:")) || l.starts_with(&format!("{v} ")) || l.ends_with(&format!(" {v}"))
        });
        if !mentioned {
            lines.push(format!("${v}: {v}"));
            lines.push(format!("{v} -> {v}"));
        }
    }
    lines.join("\n") + "\n"
}

/// Random set inside the unit set, as a BDD over the canonical context.
fn gen_context_bdd(rng: &mut Rng, graph: &SymbolicAsyncGraph) -> Bdd {
    let ctx = graph.symbolic_context();
    let vs = ctx.bdd_variable_set();
    let state = ctx.state_variables().clone();
    let params = ctx.parameter_variables().clone();
    let unit = graph.unit_colored_vertices().as_bdd().clone();
    let kind = rng.weighted(&[2, 2, 3, 3, 4, 3, 2]);
    let cube = |rng: &mut Rng, pool: &Vec<biodivine_lib_bdd::BddVariable>, n: usize| -> Bdd {
        let mut b = vs.mk_true();
        if pool.is_empty() {
            return b;
        }
        for _ in 0..n {
            let v = *rng.pick(pool);
            b = b.and(&vs.mk_literal(v, rng.chance(1, 2)));
        }
        b
    };
    let raw = match kind {
        0 => vs.mk_false(),
        1 => vs.mk_true(),
        2 => {
            // one vertex, all colours
            let mut b = vs.mk_true();
            for v in &state {
                b = b.and(&vs.mk_literal(*v, rng.chance(1, 2)));
            }
            b
        }
        3 => {
            // state-only DNF
            let mut b = vs.mk_false();
            for _ in 0..rng.range(1, 3) {
                let n = rng.range(1, 3);
                b = b.or(&cube(rng, &state, n));
            }
            b
        }
        4 => {
            // colour-dependent: cubes mixing state and parameter literals; empty for some colours
            let mut b = vs.mk_false();
            for _ in 0..rng.range(1, 3) {
                let ns = rng.range(0, 2);
                let np = rng.range(1, 2);
                b = b.or(&cube(rng, &state, ns).and(&cube(rng, &params, np)));
            }
            b
        }
        5 => {
            // all vertices, some colours
            let n = rng.range(1, 2);
            cube(rng, &params, n)
        }
        _ => {
            // complement of a small DNF
            let mut b = vs.mk_false();
            for _ in 0..rng.range(1, 2) {
                let ns = rng.range(1, 3);
                let np = rng.range(0, 1);
                b = b.or(&cube(rng, &state, ns).and(&cube(rng, &params, np)));
            }
            b.not()
        }
    };
    raw.and(&unit)
}

pub struct WorldCfg {
    pub min_k: u16,
    pub max_extra_k: u16,
    pub max_ctx: usize,
    /// may the world carry a caller-side colour restriction of the graph
    pub allow_restrict: bool,
}

/// Generate a world; deterministic in `rng`'s seed. Returns the world and the number of
/// attempts that were needed (networks without valid colours are retried).
pub fn gen_world(rng: &Rng, cfg: &WorldCfg) -> (World, usize) {
    for attempt in 0..64u64 {
        let mut r = rng.fork_n("world", attempt);
        let model_raw = gen_model_text(&mut r);
        if let Some(w) = world_on_model(&mut r, cfg, model_raw) {
            return (w, attempt as usize + 1);
        }
    }
    // fall back to a fixed tiny network (never expected)
    (
        World {
            model: "a -> b\nb -| a\n$a: !b\n$b: a\n".to_string(),
            k: cfg.min_k,
            context: BTreeMap::new(),
            restrict: None,
        },
        64,
    )
}

/// A world on a given network text (aeon): spare sets and context sets are drawn from `r`.
pub fn world_on_model(r: &mut Rng, cfg: &WorldCfg, model: String) -> Option<World> {
    let bn = BooleanNetwork::try_from(model.as_str()).ok()?;
    let graph = SymbolicAsyncGraph::new(&bn).ok()?;
    if graph.unit_colored_vertices().is_empty() {
        return None;
    }
    let k = cfg.min_k + r.below(cfg.max_extra_k as usize + 1) as u16;
    let nctx = r.below(cfg.max_ctx + 1);
    let mut labels: Vec<&str> = LABEL_POOL.to_vec();
    r.shuffle(&mut labels);
    let mut context = BTreeMap::new();
    for l in labels.into_iter().take(nctx) {
        context.insert(l.to_string(), gen_context_bdd(r, &graph).to_string());
    }
    // every fifth world with parameters: the caller restricts the admissible colours further
    let mut restrict = None;
    let params = graph.symbolic_context().parameter_variables().clone();
    if !params.is_empty() && cfg.allow_restrict && r.chance(1, 5) {
        let vs = graph.symbolic_context().bdd_variable_set();
        let mut cube = vs.mk_true();
        for _ in 0..r.range(1, 2) {
            cube = cube.and(&vs.mk_literal(*r.pick(&params), r.chance(1, 2)));
        }
        let colours = cube.and(graph.unit_colors().as_bdd());
        if !colours.is_false() && colours != *graph.unit_colors().as_bdd() {
            restrict = Some(colours.to_string());
        }
    }
    let w = World { model, k, context, restrict };
    if w.restrict.is_some() && w.build().is_err() {
        return Some(World { restrict: None, ..w });
    }
    Some(w)
}
