//! One integer decides everything: splitmix64 for seed derivation, xoshiro256** for streams.
//! Sub-streams are derived by purpose so that minimisation can drop one operation without
//! shifting the random choices of the others. Logging never draws from a stream.

pub fn splitmix64(state: &mut u64) -> u64 {
    *state = state.wrapping_add(0x9E3779B97F4A7C15);
    let mut z = *state;
    z = (z ^ (z >> 30)).wrapping_mul(0xBF58476D1CE4E5B9);
    z = (z ^ (z >> 27)).wrapping_mul(0x94D049BB133111EB);
    z ^ (z >> 31)
}

/// Seed of run `index` in a batch started with `VERIF_SEED = seed`.
pub fn run_seed(seed: u64, index: u64) -> u64 {
    let mut s = seed ^ index.wrapping_mul(0xD1342543DE82EF95).wrapping_add(0x632BE59BD9B4E019);
    let a = splitmix64(&mut s);
    let b = splitmix64(&mut s);
    a ^ b.rotate_left(17)
}

pub fn fnv1a(bytes: &[u8]) -> u64 {
    let mut h: u64 = 0xcbf29ce484222325;
    for b in bytes {
        h ^= *b as u64;
        h = h.wrapping_mul(0x100000001b3);
    }
    h
}

#[derive(Clone, Debug)]
pub struct Rng {
    s: [u64; 4],
    seed: u64,
}

impl Rng {
    pub fn new(seed: u64) -> Rng {
        let mut st = seed;
        let s = [
            splitmix64(&mut st),
            splitmix64(&mut st),
            splitmix64(&mut st),
            splitmix64(&mut st),
        ];
        Rng { s, seed }
    }

    /// Independent sub-stream for a named purpose (pure function of the parent seed and the name).
    pub fn fork(&self, purpose: &str) -> Rng {
        Rng::new(self.seed ^ fnv1a(purpose.as_bytes()).rotate_left(23) ^ 0xA5A5_5A5A_1234_8765)
    }

    pub fn fork_n(&self, purpose: &str, n: u64) -> Rng {
        Rng::new(
            self.seed
                ^ fnv1a(purpose.as_bytes()).rotate_left(23)
                ^ n.wrapping_mul(0x9E3779B97F4A7C15)
                ^ 0x5A5A_A5A5_8765_1234,
        )
    }

    pub fn next_u64(&mut self) -> u64 {
        let result = self.s[1].wrapping_mul(5).rotate_left(7).wrapping_mul(9);
        let t = self.s[1] << 17;
        self.s[2] ^= self.s[0];
        self.s[3] ^= self.s[1];
        self.s[1] ^= self.s[2];
        self.s[0] ^= self.s[3];
        self.s[2] ^= t;
        self.s[3] = self.s[3].rotate_left(45);
        result
    }

    /// Uniform in 0..n (n > 0).
    pub fn below(&mut self, n: usize) -> usize {
        debug_assert!(n > 0);
        (self.next_u64() % (n as u64)) as usize
    }

    /// Uniform in lo..=hi.
    pub fn range(&mut self, lo: usize, hi: usize) -> usize {
        lo + self.below(hi - lo + 1)
    }

    pub fn chance(&mut self, num: usize, den: usize) -> bool {
        self.below(den) < num
    }

    pub fn pick<'a, T>(&mut self, xs: &'a [T]) -> &'a T {
        &xs[self.below(xs.len())]
    }

    pub fn shuffle<T>(&mut self, xs: &mut [T]) {
        for i in (1..xs.len()).rev() {
            let j = self.below(i + 1);
            xs.swap(i, j);
        }
    }

    /// Weighted choice: returns index.
    pub fn weighted(&mut self, weights: &[usize]) -> usize {
        let total: usize = weights.iter().sum();
        let mut r = self.below(total.max(1));
        for (i, w) in weights.iter().enumerate() {
            if r < *w {
                return i;
            }
            r -= *w;
        }
        weights.len() - 1
    }
}
