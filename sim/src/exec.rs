//! Isolated execution: every evaluation runs in a fresh thread whose `RandomState` keys come from
//! the simulated `getrandom` (so hash-map iteration order is a pure function of the hash seed),
//! with panics captured rather than propagated.

use crate::simenv;
use std::sync::Mutex;

static LAST_PANIC: Mutex<String> = Mutex::new(String::new());

pub fn install_panic_hook() {
    std::panic::set_hook(Box::new(|info| {
        let loc = info
            .location()
            .map(|l| format!("{}:{}", l.file(), l.line()))
            .unwrap_or_else(|| "?".to_string());
        let msg = if let Some(s) = info.payload().downcast_ref::<&str>() {
            s.to_string()
        } else if let Some(s) = info.payload().downcast_ref::<String>() {
            s.clone()
        } else {
            "panic".to_string()
        };
        if let Ok(mut g) = LAST_PANIC.lock() {
            *g = format!("{loc}: {msg}");
        }
    }));
}

#[derive(Clone, Debug, PartialEq)]
pub enum Outcome<T> {
    Ok(T),
    Err(String),
    Panic(String),
}

impl<T> Outcome<T> {
    pub fn kind(&self) -> &'static str {
        match self {
            Outcome::Ok(_) => "ok",
            Outcome::Err(_) => "err",
            Outcome::Panic(_) => "panic",
        }
    }
    pub fn describe(&self) -> String {
        match self {
            Outcome::Ok(_) => "ok".to_string(),
            Outcome::Err(e) => format!("Err({e})"),
            Outcome::Panic(p) => format!("PANIC({p})"),
        }
    }
    pub fn ok(&self) -> Option<&T> {
        match self {
            Outcome::Ok(t) => Some(t),
            _ => None,
        }
    }
}

/// Shorten absolute registry / repo paths in panic locations so that replays compare equal
/// regardless of where the tree lives.
pub fn normalise_panic(p: &str) -> String {
    let mut s = p.to_string();
    // "thread 'main' (12345) panicked at" - the thread id differs between processes
    if let (Some(a), Some(b)) = (s.find("' ("), s.find(") panicked")) {
        if a < b {
            s.replace_range(a + 1..b + 1, "");
        }
    }
    if let Some(i) = s.find("/src/") {
        // keep the crate-relative part only
        let head = &s[..i];
        let crate_name = head.rsplit('/').next().unwrap_or("");
        s = format!("{}{}", crate_name, &s[i..]);
    }
    s
}

/// Run `f` in a fresh thread under hash seed `hash_seed`.
pub fn isolated<T: Send, FN: FnOnce() -> Result<T, String> + Send>(hash_seed: u64, f: FN) -> Outcome<T> {
    simenv::reseed(hash_seed);
    let r = std::thread::scope(|s| {
        let h = std::thread::Builder::new()
            .stack_size(64 << 20)
            .spawn_scoped(s, f)
            .expect("spawn");
        h.join()
    });
    match r {
        Ok(Ok(t)) => Outcome::Ok(t),
        Ok(Err(e)) => Outcome::Err(e),
        Err(_) => {
            let msg = LAST_PANIC.lock().map(|g| g.clone()).unwrap_or_default();
            Outcome::Panic(normalise_panic(&msg))
        }
    }
}
